#!/bin/sh
# Offline bootstrap of the overlay venv used by every check (idempotent).
set -e
HERE="$(cd "$(dirname "$0")" && pwd)"
VENV="$HERE/.venv"
if [ -x "$VENV/bin/python" ] && "$VENV/bin/python" -c "import crosshair, z3" 2>/dev/null; then
    exit 0
fi
rm -rf "$VENV"
/venv/bin/python -m venv "$VENV"
SP="$VENV/lib/python3.12/site-packages"
printf "import site; site.addsitedir('/venv/lib/python3.12/site-packages')\n" > "$SP/_overlay.pth"
PIP_NO_INDEX=1 "$VENV/bin/pip" install -q --no-index --find-links /opt/veriftools/wheels crosshair-tool >/dev/null
"$VENV/bin/python" -c "import crosshair, z3; print('overlay ok', z3.get_version_string())"
