"""
./check <Cxx> [--tier quick|thorough]   run every job of a property on a process pool
./check replay <file>                   re-run a recorded counterexample natively

Exit 0: property held on everything explored (inconclusive jobs are reported as such,
        never as success of the unexplored part)
Exit 1: reproduced violation not listed in known_findings.json (VIOLATION line printed)
Exit 2: harness / encoding error (nothing it would report is to be believed)
"""
import concurrent.futures
import hashlib
import importlib
import json
import os
import subprocess
import sys
import time

HERE = os.path.dirname(os.path.dirname(os.path.abspath(__file__)))
PY = os.path.join(HERE, ".venv", "bin", "python")
REPO = os.environ.get("VERIF_REPO", "/repo")
OUT = os.environ.get("VERIF_OUT", HERE)  # evidence/ and replays/ go here (mutation runs use a scratch dir)

CROSSHAIR_ASSUMPTIONS = [
    "engine: crosshair-tool 0.0.110 + z3 5.1.0 symbolically executing the harness, which calls the real asyncstdlib code in /repo's working tree through its public API only (no pre-translation, nothing cached)",
    "CrossHair substitutes while tracing (also for calls made by asyncstdlib): heapq.* -> CPython's pure-Python Lib/heapq.py definitions; sorted -> list.sort; all/any/map/filter/functools.partial/reduce and several itertools tools behind pure-Python trampolines; isinstance/hasattr/len/hash/range symbolic-aware versions; functools.lru_cache wrappers uncached (C oracles with concrete inputs are therefore invoked under NoTracing)",
    "CrossHair's short-circuiting of contract-bearing functions (uninterpreted results, e.g. for its hash() model) is switched off: every call is really executed",
    "CrossHair's model of callable() is refined to answer False for symbolic numbers without realizing them",
    "no event loop: coroutines are driven by hand (send/throw); a suspension is a bare yield of a harness token",
    "every counterexample is replayed natively (no tracer) against /repo before it is reported; the concrete pre-flight grid runs against the unpatched stdlib",
    "a verdict 'confirmed' means CrossHair exhausted its path tree (every branch condition decided by z3, no unknown) within the stated bounds; nothing is claimed outside them",
]


def ensure_env():
    if not (os.path.exists(PY) and subprocess.call([PY, "-c", "import crosshair, z3"], stdout=subprocess.DEVNULL, stderr=subprocess.DEVNULL) == 0):
        subprocess.check_call([os.path.join(HERE, "setup.sh")], stdout=sys.stderr)


def load_known():
    p = os.path.join(HERE, "known_findings.json")
    if not os.path.exists(p):
        return {"open": [], "fixed": []}
    with open(p) as f:
        return json.load(f)


def run_worker(job, hard_timeout):
    env = dict(os.environ)
    env["PYTHONDONTWRITEBYTECODE"] = "1"
    env["PYTHONPATH"] = HERE + os.pathsep + REPO
    env["PYTHONHASHSEED"] = "0"
    t0 = time.time()
    try:
        pr = subprocess.run([PY, "-m", "vf.worker", json.dumps(job)], cwd=HERE, env=env, stdout=subprocess.PIPE, stderr=subprocess.PIPE, timeout=hard_timeout, text=True)
    except subprocess.TimeoutExpired:
        return {"module": job["module"], "fn": job["fn"], "part": job.get("part"), "verdict": "inconclusive", "detail": "worker exceeded hard timeout %ss" % hard_timeout, "paths": 0, "wall_s": round(time.time() - t0, 1), "hard_timeout": True}
    out = pr.stdout
    i = out.rfind("@@RESULT@@")
    if i < 0:
        return {"module": job["module"], "fn": job["fn"], "part": job.get("part"), "verdict": "harness_error", "detail": "worker produced no result (rc=%s): %s" % (pr.returncode, (pr.stderr or "")[-1500:]), "wall_s": round(time.time() - t0, 1)}
    res = json.loads(out[i + len("@@RESULT@@") :].strip().splitlines()[0])
    res["wall_s"] = round(time.time() - t0, 1)
    return res


def job_id(job):
    part = job.get("part") or {}
    return "%s.%s[%s]" % (job["module"], job["fn"], ",".join("%s=%s" % (k, part[k]) for k in sorted(part)))


def write_replay(prop, job, cex):
    d = os.path.join(OUT, "replays", prop)
    os.makedirs(d, exist_ok=True)
    doc = {"property": prop, "module": job["module"], "fn": job["fn"], "part": job.get("part") or {}, "args": cex.get("args"), "kwargs": cex.get("kwargs") or {}, "signatures": cex.get("sigs"), "found_by": cex.get("source", "symbolic"), "message": cex.get("message")}
    h = hashlib.sha1(json.dumps([doc["module"], doc["fn"], doc["part"], doc["args"]], sort_keys=True, default=repr).encode()).hexdigest()[:10]
    path = os.path.join(d, "%s-%s-%s.json" % (job["module"], job["fn"], h))
    with open(path, "w") as f:
        json.dump(doc, f, indent=1, default=repr)
    return path


def replay(path):
    ensure_env()
    with open(path) as f:
        doc = json.load(f)
    job = {"module": doc["module"], "fn": doc["fn"], "part": doc["part"], "replay_args": doc["args"], "replay_kwargs": doc.get("kwargs") or {}}
    code = (
        "import sys, json; sys.path.insert(0, %r); sys.path.insert(0, %r); sys.dont_write_bytecode=True\n"
        "from vf import worker; from harness import world; import importlib\n"
        "job = json.loads(sys.argv[1]); world.PART.update(job['part'])\n"
        "mod = importlib.import_module('harness.' + job['module'])\n"
        "r = worker.run_native(mod, getattr(mod, job['fn']), job['replay_args'], job['replay_kwargs'])\n"
        "print('@@RESULT@@' + json.dumps(r, default=repr))\n"
    ) % (HERE, REPO)
    pr = subprocess.run([PY, "-c", code, json.dumps(job)], cwd=HERE, stdout=subprocess.PIPE, stderr=subprocess.PIPE, text=True, timeout=600)
    i = pr.stdout.rfind("@@RESULT@@")
    if i < 0:
        print("replay: harness error\n" + pr.stderr[-2000:])
        return 2, None
    r = json.loads(pr.stdout[i + 10 :].strip().splitlines()[0])
    return (1 if r["status"] == "fail" else (2 if r["status"] == "harness_error" else 0)), r


def main(argv):
    if len(argv) >= 2 and argv[0] == "replay":
        rc, r = replay(argv[1])
        print(json.dumps(r, indent=1))
        if rc == 1:
            with open(argv[1]) as f:
                doc = json.load(f)
            print("VIOLATION property=%s replay=%s" % (doc["property"], argv[1]))
        return rc
    prop = argv[0]
    tier = os.environ.get("VERIF_TIER", "quick")
    only = None
    i = 1
    while i < len(argv):
        if argv[i] == "--tier":
            tier = argv[i + 1]
            i += 2
        elif argv[i] == "--only":
            only = argv[i + 1]
            i += 2
        else:
            i += 1
    seed = int(os.environ.get("VERIF_SEED", "0") or 0)
    ensure_env()
    sys.path.insert(0, HERE)
    sys.path.insert(0, REPO)
    t_start = time.time()
    mod = importlib.import_module("harness." + prop.lower())
    jobs = mod.jobs(tier)
    if only:
        jobs = [j for j in jobs if only in job_id(j)]
    known = load_known()
    open_f = [k for k in known.get("open", []) if k.get("property") == prop]
    tolerated = sorted({k["signature"] for k in open_f})
    for j in jobs:
        j["seed"] = seed
        j["tolerated"] = tolerated
    ncpu = int(os.environ.get("VERIF_JOBS", os.cpu_count() or 4))
    results = []
    with concurrent.futures.ThreadPoolExecutor(max_workers=ncpu) as ex:
        futs = {ex.submit(run_worker, j, float(j.get("timeout", 120)) * 2.2 + 180): j for j in sorted(jobs, key=lambda j: -float(j.get("timeout", 120)))}
        for fut in concurrent.futures.as_completed(futs):
            j = futs[fut]
            r = fut.result()
            r["_job"] = j
            results.append(r)
            print("  [%s] %-11s %-60s paths=%-6s %5.1fs %s" % (prop, r.get("verdict"), job_id(j)[:60], r.get("paths", "-"), r.get("wall_s", 0), (r.get("detail") or "")[:200]), file=sys.stderr)
    results.sort(key=lambda r: job_id(r["_job"]))

    # known findings: replay each recorded input, print KNOWN-FINDING if it still fails
    known_lines = []
    stale = []
    for k in open_f:
        tmp = os.path.join(OUT, "replays", prop)
        os.makedirs(tmp, exist_ok=True)
        pth = os.path.join(tmp, "known-%s.json" % hashlib.sha1(json.dumps(k, sort_keys=True).encode()).hexdigest()[:10])
        with open(pth, "w") as f:
            json.dump({"property": prop, "module": k["module"], "fn": k["fn"], "part": k.get("part") or {}, "args": k["args"], "kwargs": {}}, f)
        rc, r = replay(pth)
        sigs = [s[0] for s in (r or {}).get("sigs", [])]
        if rc == 1 and k["signature"] in sigs:
            known_lines.append("KNOWN-FINDING: property=%s %s [%s]" % (prop, k["what"], k["signature"]))
            extra = [s for s in sigs if s not in tolerated]
            if extra:
                results.append({"verdict": "refuted", "_job": {"module": k["module"], "fn": k["fn"], "part": k.get("part") or {}}, "cex": {"args": k["args"], "sigs": [[s, None] for s in extra], "replayed": True, "source": "known-finding-input"}})
        else:
            stale.append(k["signature"])

    violations = []
    errors = []
    for r in results:
        if r.get("verdict") == "refuted":
            path = write_replay(prop, r["_job"], r["cex"])
            violations.append((r, path))
        elif r.get("verdict") == "harness_error":
            errors.append(r)

    # ---- evidence -------------------------------------------------------
    level = getattr(mod, "LEVEL", "other")
    conf = [r for r in results if r.get("verdict") == "confirmed"]
    inconc = [r for r in results if r.get("verdict") == "inconclusive"]
    paths = sum(int(r.get("paths") or 0) for r in results)
    completions = sum(int(r.get("harness_completions") or 0) for r in results)
    nontriv = sum(int(r.get("nontrivial_paths") or 0) for r in results)
    dshapes = sum(int(r.get("distinct_nontrivial_shapes") or 0) for r in results)
    funcs = sorted({f for r in results for f in (r.get("functions_executed") or [])})
    samples = []
    for r in results:
        if r.get("sample_shapes"):
            samples.append({"job": job_id(r["_job"]), "path_shapes": r["sample_shapes"][:3], "nontrivial_witness": (r.get("twin") or {}).get("witness")})
    samples = samples[:40] or [{"note": "no job completed"}]
    exhaustive = bool(results) and not inconc and not errors and not violations and all(r.get("verdict") == "confirmed" for r in results)
    cov = {
        "evaluations": paths + sum(int((r.get("preflight") or {}).get("cases") or 0) for r in results),
        "distinct_nontrivial": nontriv,
        "rule": "one evaluation = one symbolic path of a harness explored by CrossHair (each path is a distinct sequence of solver-decided branch outcomes over the harness inputs, i.e. one order-type / length / flag / schedule class) plus the concrete pre-flight cases; non-trivial = the harness's own structural predicate on that path (e.g. >=2 items and non-empty output, a tie present, a fault actually delivered, a real context switch) evaluated on concrete path structure and counted per completed path; "
        + getattr(mod, "NONTRIVIAL_RULE", ""),
        "samples": samples,
        "exhaustive": exhaustive,
        "explanation": "bounded symbolic execution of the real asyncstdlib code with CrossHair/z3: every harness argument (item keys, lengths, int parameters, flags, fault/cancel positions, schedule choices) is a solver variable; the verdict per job is 'confirmed' only when the whole path tree was exhausted. Bounds: %s" % (getattr(mod, "BOUNDS", {}).get(tier, ""),),
        "symbolic_paths": paths,
        "harness_completions": completions,
        "distinct_nontrivial_shapes": dshapes,
        "jobs": len(results),
        "jobs_confirmed_exhaustively": len(conf),
        "jobs_inconclusive": [job_id(r["_job"]) for r in inconc],
        "z3_queries": sum(int(r.get("z3_queries") or 0) for r in results),
        "z3_seconds": round(sum(float(r.get("z3_s") or 0) for r in results), 1),
        "z3_unknown": sum(int(r.get("z3_unknown") or 0) for r in results),
        "cpu_seconds": round(sum(float(r.get("wall_s") or 0) for r in results), 1),
        "functions_encoded": funcs,
        "bounds": getattr(mod, "BOUNDS", {}).get(tier, ""),
        "outside_bounds": getattr(mod, "OUTSIDE", []),
        "per_job": [
            {
                "job": job_id(r["_job"]),
                "verdict": r.get("verdict"),
                "paths": r.get("paths"),
                "nontrivial_paths": r.get("nontrivial_paths"),
                "z3_queries": r.get("z3_queries"),
                "z3_s": r.get("z3_s"),
                "wall_s": r.get("wall_s"),
                "preflight_cases": (r.get("preflight") or {}).get("cases"),
                "twin": (r.get("twin") or {}).get("state"),
                "tolerated": r.get("tolerated") or {},
            }
            for r in results
        ],
        "known_findings_reported": known_lines,
    }
    if level == "model_checking":
        cov["states"] = max(1, completions)
        cov["transitions"] = max(1, sum(int(r.get("sched_steps") or 0) for r in results))
        cov["traces_validated_against_impl"] = completions
    ev = {
        "property_id": prop,
        "tier": tier,
        "seed": seed,
        "level": level,
        "coverage": cov,
        "assumptions": CROSSHAIR_ASSUMPTIONS + list(getattr(mod, "ASSUMPTIONS", [])) + ["outside the bounded claim: " + "; ".join(getattr(mod, "OUTSIDE", []))],
        "wall_s": round(time.time() - t_start, 1),
        "violations": len(violations),
    }
    os.makedirs(os.path.join(OUT, "evidence"), exist_ok=True)
    with open(os.path.join(OUT, "evidence", prop + ".json"), "w") as f:
        json.dump(ev, f, indent=1, default=repr)

    for line in known_lines:
        print(line)
    for s in stale:
        print("note: known finding %s no longer reproduces (remove it from known_findings.json or mark it fixed)" % s)
    print("%s tier=%s jobs=%d confirmed=%d inconclusive=%d errors=%d violations=%d paths=%d wall=%.0fs" % (prop, tier, len(results), len(conf), len(inconc), len(errors), len(violations), paths, time.time() - t_start))
    if errors:
        for r in errors:
            print("HARNESS-ERROR %s: %s" % (job_id(r["_job"]), (r.get("detail") or "")[:1500]))
            if r.get("tb"):
                print(r["tb"][-1500:])
    if violations:
        # a counterexample that reproduced natively against the real code stands on its own,
        # whatever went wrong in other jobs
        seen = set()
        for r, path in violations:
            sigs = ",".join(s[0] for s in (r["cex"].get("sigs") or []))
            print("  counterexample %s args=%s signatures=%s" % (job_id(r["_job"]), r["cex"].get("args"), sigs))
            if path not in seen:
                print("VIOLATION property=%s replay=%s" % (prop, path))
                seen.add(path)
        return 1
    if errors:
        return 2
    for r in inconc:
        print("INCONCLUSIVE %s: explored %s paths without a violation, path tree not exhausted (%s)" % (job_id(r["_job"]), r.get("paths"), (r.get("detail") or "timeout")))
    return 0


if __name__ == "__main__":
    sys.exit(main(sys.argv[1:]))
