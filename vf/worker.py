"""
One verification job = one harness function under one concrete partition.

  1. concrete pre-flight: the harness is executed natively on a small grid (validates
     harness + spec oracles against the real stdlib; a failure is a reproduced violation)
  2. symbolic run: CrossHair/z3 explore every path of the harness (which calls the real
     asyncstdlib code from /repo) for `post: _[0]` ...
  3. ... and for the vacuity twin `post: not _[1]`, which must be REFUTED
  4. a counterexample is parsed and replayed natively on the same harness; only a
     reproducing one is reported.

Prints one JSON document on stdout (last line).
"""
import collections
import importlib
import json
import os
import random
import re
import sys
import time
import traceback

HERE = os.path.dirname(os.path.dirname(os.path.abspath(__file__)))
sys.path.insert(0, HERE)
REPO = os.environ.get("VERIF_REPO", "/repo")
sys.path.insert(0, REPO)
sys.dont_write_bytecode = True


def _parse_call(message, fname):
    """Extract the concrete arguments CrossHair printed in 'when calling f(...)'."""
    idx = message.find("when calling " + fname + "(")
    if idx < 0:
        return None
    start = idx + len("when calling ")
    depth = 0
    end = None
    instr = None
    i = start
    while i < len(message):
        ch = message[i]
        if instr:
            if ch == "\\":
                i += 1
            elif ch == instr:
                instr = None
        elif ch in "'\"":
            instr = ch
        elif ch in "([{":
            depth += 1
        elif ch in ")]}":
            depth -= 1
            if depth == 0:
                end = i + 1
                break
        i += 1
    if end is None:
        return None
    expr = message[start:end]
    try:
        args, kwargs = eval(expr, {fname: lambda *a, **k: (a, k), "__builtins__": {"None": None, "True": True, "False": False}})
    except Exception:
        return None
    return list(args), dict(kwargs), expr


def run_native(mod, fn, args, kwargs):
    from harness import world

    world.reset_run()
    try:
        res = fn(*args, **kwargs)
    except world.HarnessError as e:
        return {"status": "harness_error", "detail": repr(e)}
    except BaseException as e:  # noqa
        return {"status": "harness_error", "detail": "".join(traceback.format_exception_only(type(e), e)).strip(), "tb": traceback.format_exc()[-1500:]}
    ok, nontrivial = bool(res[0]), bool(res[1])
    return {"status": "ok" if ok else "fail", "nontrivial": nontrivial, "sigs": [[s, (repr(d)[:300] if d is not None else None)] for s, d in world.LAST_FAIL]}


def main(job):
    t_start = time.time()
    seed = int(job.get("seed", 0))
    random.seed(seed)
    from harness import world

    world.PART.clear()
    world.PART.update(job.get("part") or {})
    world.TOLERATED.clear()
    world.TOLERATED.update(job.get("tolerated") or [])
    mod = importlib.import_module("harness." + job["module"])
    fn = getattr(mod, job["fn"])
    out = {
        "module": job["module"],
        "fn": job["fn"],
        "part": job.get("part") or {},
        "verdict": None,
        "preflight": {"cases": 0, "failures": []},
        "paths": 0,
        "nontrivial_paths": 0,
        "twin": None,
        "cex": None,
    }

    # -- 1. concrete pre-flight ------------------------------------------
    funcs_seen = set()
    grid_fn = getattr(mod, "GRID", {}).get(job["fn"])
    if grid_fn is not None and not job.get("no_preflight"):

        def prof(frame, event, arg):
            if event == "call":
                fnm = frame.f_code.co_filename
                if fnm.startswith(REPO + "/asyncstdlib"):
                    funcs_seen.add("%s:%s" % (os.path.basename(fnm), frame.f_code.co_qualname))

        n = 0
        t0 = time.time()
        budget = float(job.get("preflight_budget", (job.get("part") or {}).get("preflight_budget", 20)))
        for args in grid_fn():
            if n < 40:
                sys.setprofile(prof)
            try:
                r = run_native(mod, fn, list(args), {})
            finally:
                sys.setprofile(None)
            n += 1
            if r["status"] == "harness_error":
                out["verdict"] = "harness_error"
                out["detail"] = "preflight %r: %s" % (args, r.get("detail"))
                out["tb"] = r.get("tb")
                break
            if r["status"] == "fail":
                out["preflight"]["failures"].append({"args": list(args), "sigs": r["sigs"]})
                if len(out["preflight"]["failures"]) >= 5:
                    break
            if time.time() - t0 > budget:
                break
        out["preflight"]["cases"] = n
        out["preflight"]["wall_s"] = round(time.time() - t0, 2)
    out["functions_executed"] = sorted(funcs_seen)
    if out["verdict"] == "harness_error":
        return out
    if out["preflight"]["failures"]:
        f = out["preflight"]["failures"][0]
        out["verdict"] = "refuted"
        out["cex"] = {"args": f["args"], "kwargs": {}, "sigs": f["sigs"], "source": "preflight", "replayed": True}
        return out
    if job.get("preflight_only"):
        out["verdict"] = "preflight_only"
        return out

    # -- 2./3. symbolic runs -----------------------------------------------
    import z3
    from crosshair.core_and_libs import analyze_function, run_checkables, AnalysisKind, MessageType
    from crosshair.options import AnalysisOptionSet

    # CrossHair may replace a call to any function that carries a contract (e.g. its own model
    # of builtin hash()) by an uninterpreted symbolic result ("short-circuiting"). That is an
    # over-approximation of the real code (a symbolic hash makes CallKey.__hash__ fail in a real
    # dict): switch it off so that every call is really executed.
    import crosshair.core as _cc

    _cc.ShortCircuitingContext.__enter__ = lambda self: None
    _cc.ShortCircuitingContext.__exit__ = lambda self, *a: False

    # CrossHair's model of callable() realizes its argument (value by value); symbolic numbers
    # are never callable, so answer False for them without realizing (asyncstdlib.lru_cache
    # asks callable(maxsize)).
    from crosshair.libimpl import builtinslib as _bl
    from crosshair.tracers import NoTracing as _NoTracing

    _orig_callable = _cc._PATCH_REGISTRATIONS.get(callable)
    _never_callable = tuple(getattr(_bl, n) for n in ("SymbolicInt", "SymbolicBool", "SymbolicFloat") if hasattr(_bl, n))

    def _callable(x):
        with _NoTracing():
            if isinstance(x, _never_callable):
                return False
        x = _cc.realize(x)
        with _NoTracing():
            return callable(x)

    if _orig_callable is not None:
        _cc._PATCH_REGISTRATIONS[callable] = _callable

    zstat = {"queries": 0, "time": 0.0, "unknown": 0}
    orig_check = z3.Solver.check

    def counted_check(self, *a, **k):
        t0 = time.perf_counter()
        r = orig_check(self, *a, **k)
        zstat["time"] += time.perf_counter() - t0
        zstat["queries"] += 1
        if str(r) == "unknown":
            zstat["unknown"] += 1
        return r

    z3.Solver.check = counted_check

    timeout = float(job.get("timeout", 120))
    stats = collections.Counter()
    opts = AnalysisOptionSet(
        analysis_kind=[AnalysisKind.PEP316],
        per_condition_timeout=timeout,
        per_path_timeout=float(job.get("per_path_timeout", 20)),
        report_all=True,
        max_uninteresting_iterations=10**9,
        stats=stats,
    )
    checkables = analyze_function(fn, opts)
    if len(checkables) != 2:
        out["verdict"] = "harness_error"
        out["detail"] = "expected two conditions (main + twin), got %d" % len(checkables)
        return out
    main_c, twin_c = None, None
    for c in checkables:
        src = c.conditions.post[0].expr_source.replace(" ", "")
        if src == "_[0]":
            main_c = c
        elif src == "not_[1]":
            twin_c = c
    if main_c is None or twin_c is None:
        out["verdict"] = "harness_error"
        out["detail"] = "post conditions must be `_[0]` and `not _[1]`"
        return out

    def run_one(c, label):
        world.STATS.update({"paths": 0, "nontrivial": 0, "shapes": {}, "steps": 0, "tolerated": {}})
        stats.clear()
        q0, z0, u0 = zstat["queries"], zstat["time"], zstat["unknown"]
        t0 = time.time()
        msgs = run_checkables([c])
        res = {
            "wall_s": round(time.time() - t0, 2),
            "crosshair_paths": int(stats.get("num_paths", 0)),
            "harness_completions": world.STATS["paths"],
            "nontrivial": world.STATS["nontrivial"],
            "steps": world.STATS["steps"],
            "z3_queries": zstat["queries"] - q0,
            "z3_s": round(zstat["time"] - z0, 2),
            "z3_unknown": zstat["unknown"] - u0,
            "tolerated": dict(world.STATS["tolerated"]),
            "messages": [[m.state.name, m.message[:600]] for m in msgs],
        }
        shapes = world.STATS["shapes"]
        res["distinct_shapes"] = len(shapes)
        res["distinct_nontrivial_shapes"] = sum(1 for v in shapes.values() if v)
        keys = sorted(shapes)
        if len(keys) > 6:
            step = max(1, len(keys) // 6)
            keys = keys[::step][:6]
        res["sample_shapes"] = keys
        states = [m.state for m in msgs]
        if not msgs:
            res["state"] = "NONE"
        elif any(s in (MessageType.POST_FAIL, MessageType.POST_ERR, MessageType.EXEC_ERR) for s in states):
            res["state"] = "CEX"
        elif all(s == MessageType.CONFIRMED for s in states):
            res["state"] = "CONFIRMED"
        elif any(s == MessageType.PRE_UNSAT for s in states):
            res["state"] = "PRE_UNSAT"
        elif any(s in (MessageType.SYNTAX_ERR, MessageType.IMPORT_ERR) for s in states):
            res["state"] = "ERROR"
        else:
            res["state"] = "CANNOT_CONFIRM"
        return res, msgs

    # twin first (cheap, stops at first witness)
    twin_opts_timeout = min(timeout, float(job.get("twin_timeout", 60)))
    twin_c.options.per_condition_timeout = twin_opts_timeout
    tres, tmsgs = run_one(twin_c, "twin")
    twin = {"state": tres["state"], "wall_s": tres["wall_s"], "paths": tres["crosshair_paths"]}
    if tres["state"] == "CEX":
        for m in tmsgs:
            p = _parse_call(m.message, job["fn"])
            if p:
                twin["witness"] = p[2]
                r = run_native(mod, fn, p[0], p[1])
                twin["witness_native_nontrivial"] = r.get("nontrivial")
                twin["witness_native_status"] = r.get("status")
                break
    out["twin"] = twin

    main_c.options.per_condition_timeout = timeout
    mres, mmsgs = run_one(main_c, "main")
    out.update(
        {
            "paths": mres["crosshair_paths"],
            "harness_completions": mres["harness_completions"],
            "nontrivial_paths": mres["nontrivial"],
            "distinct_shapes": mres["distinct_shapes"],
            "distinct_nontrivial_shapes": mres["distinct_nontrivial_shapes"],
            "sample_shapes": mres["sample_shapes"],
            "sched_steps": mres["steps"],
            "z3_queries": mres["z3_queries"] + tres["z3_queries"],
            "z3_s": round(mres["z3_s"] + tres["z3_s"], 2),
            "z3_unknown": mres["z3_unknown"],
            "tolerated": mres["tolerated"],
            "symbolic_wall_s": mres["wall_s"],
            "messages": mres["messages"],
            "timeout_s": timeout,
        }
    )
    st = mres["state"]
    if st == "CONFIRMED":
        out["verdict"] = "confirmed"
    elif st == "CANNOT_CONFIRM" or st == "NONE":
        out["verdict"] = "inconclusive"
    elif st in ("PRE_UNSAT", "ERROR"):
        out["verdict"] = "harness_error"
        out["detail"] = "main condition: %s %s" % (st, mres["messages"])
    elif st == "CEX":
        cex = None
        for m in mmsgs:
            if m.state in (MessageType.POST_FAIL, MessageType.POST_ERR, MessageType.EXEC_ERR):
                p = _parse_call(m.message, job["fn"])
                cex = {"message": m.message[:800], "state": m.state.name}
                if p:
                    cex.update({"args": p[0], "kwargs": p[1], "call": p[2]})
                    r = run_native(mod, fn, p[0], p[1])
                    cex["native"] = r
                    cex["replayed"] = r["status"] == "fail"
                    cex["sigs"] = r.get("sigs", [])
                else:
                    cex["replayed"] = False
                    cex["native"] = {"status": "unparsed"}
                break
        out["cex"] = cex
        if cex and cex.get("replayed"):
            out["verdict"] = "refuted"
        else:
            out["verdict"] = "harness_error"
            out["detail"] = "counterexample did not reproduce natively (encoding error): %r" % (cex,)
    # vacuity
    if out["verdict"] in ("confirmed", "inconclusive") and twin["state"] != "CEX":
        if twin["state"] == "CONFIRMED":
            out["verdict"] = "harness_error"
            out["detail"] = "vacuity twin not refuted (CONFIRMED): harness never reaches a non-trivial case"
        else:
            # no witness found within the twin's time budget (e.g. machine under load): the
            # main verdict cannot be called non-vacuous, so it is not counted as confirmed
            out["verdict"] = "inconclusive"
            out["detail"] = "vacuity twin undecided (%s) within its time budget" % twin["state"]
    if out["verdict"] in ("confirmed", "inconclusive") and twin.get("witness_native_nontrivial") is False:
        out["verdict"] = "harness_error"
        out["detail"] = "vacuity witness does not reproduce natively"
    out["wall_s"] = round(time.time() - t_start, 2)
    return out


if __name__ == "__main__":
    job = json.loads(sys.argv[1])
    try:
        res = main(job)
    except BaseException as e:  # noqa
        res = {"module": job.get("module"), "fn": job.get("fn"), "part": job.get("part"), "verdict": "harness_error", "detail": "worker crashed: %r" % (e,), "tb": traceback.format_exc()[-3000:]}
    res.setdefault("wall_s", 0)
    sys.stdout.write("\n@@RESULT@@" + json.dumps(res, default=repr) + "\n")
