"""Import sub-agent mutations: confirm independently in a scratch worktree
(tests pass with change, demo fails with change, demo passes without), then store as
/verif/seeded/<Cxx>-m<i>/ {patch.diff, demo.py, notes.txt, meta.json}."""
import json
import os
import shutil
import subprocess
import sys

HERE = os.path.dirname(os.path.dirname(os.path.abspath(__file__)))
PY = "/venv/bin/python"


def sh(cmd, cwd, timeout=900):
    pr = subprocess.run(cmd, cwd=cwd, shell=True, capture_output=True, text=True, timeout=timeout)
    return pr.returncode, (pr.stdout + pr.stderr)


def main():
    args = [a for a in sys.argv[1:] if not a.startswith("--")]
    base = args[0] if args else "/tmp/wt"
    offset = int(args[1]) if len(args) > 1 else 0  # round 2: m1 -> m3, m2 -> m4
    scratch = "/tmp/wt-verify"
    sh("git -C /repo worktree remove --force %s" % scratch, "/")
    rc, out = sh("git -C /repo worktree add -q --detach %s HEAD" % scratch, "/")
    assert rc == 0, out
    report = []
    try:
        for pid in sorted(os.listdir(base)):
            mdir = os.path.join(base, pid, "mutations")
            if not os.path.isdir(mdir) or not pid.startswith("C"):
                continue
            for m in sorted(os.listdir(mdir)):
                src = os.path.join(mdir, m)
                if not (m.startswith("m") and m[1:].isdigit()):
                    continue
                sid = "%s-m%d" % (pid, int(m[1:]) + offset)
                dst = os.path.join(HERE, "seeded", sid)
                if not os.path.exists(os.path.join(src, "patch.diff")) or not os.path.exists(os.path.join(src, "demo.py")):
                    continue
                if os.path.exists(os.path.join(dst, "meta.json")) and "--force" not in sys.argv:
                    continue
                sh("git checkout -q -- . && git clean -fdq", scratch)
                os.makedirs(os.path.join(scratch, "mutations", m), exist_ok=True)
                shutil.copy(os.path.join(src, "demo.py"), os.path.join(scratch, "mutations", m, "demo.py"))
                demo = "%s mutations/%s/demo.py" % (PY, m)
                rc0, o0 = sh(demo, scratch, 300)
                rca, oa = sh("git apply %s" % os.path.join(src, "patch.diff"), scratch)
                if rca != 0:
                    report.append((sid, "patch does not apply", oa[-300:]))
                    continue
                rct, ot = sh("%s -m pytest -q -p no:cacheprovider unittests 2>&1 | tail -3" % PY, scratch, 900)
                rc1, o1 = sh(demo, scratch, 300)
                rcd, diffstat = sh("git diff --stat -- asyncstdlib | tail -1", scratch)
                sh("git checkout -q -- .", scratch)
                tests_ok = "passed" in ot and "failed" not in ot and "error" not in ot.lower()
                ok = rc0 == 0 and rc1 != 0 and tests_ok
                status = "confirmed" if ok else "REJECTED"
                report.append((sid, status, "demo pristine rc=%s, demo mutated rc=%s, tests: %s" % (rc0, rc1, ot.strip().splitlines()[-1] if ot.strip() else "?")))
                if not ok:
                    continue
                os.makedirs(dst, exist_ok=True)
                for f in ("patch.diff", "demo.py", "notes.txt"):
                    if os.path.exists(os.path.join(src, f)):
                        shutil.copy(os.path.join(src, f), os.path.join(dst, f))
                notes = open(os.path.join(src, "notes.txt")).read() if os.path.exists(os.path.join(src, "notes.txt")) else ""
                meta = {
                    "id": sid,
                    "property": pid,
                    "origin": "independent sub-agent given only the property text and a scratch worktree",
                    "needs_to_manifest": notes.strip(),
                    "confirmed_by_me": {
                        "scratch_worktree": "git worktree of /repo HEAD %s" % subprocess.check_output(["git", "-C", "/repo", "rev-parse", "--short", "HEAD"], text=True).strip(),
                        "tests_with_change": ot.strip().splitlines()[-1],
                        "demo_with_change_exit": rc1,
                        "demo_without_change_exit": rc0,
                        "diffstat": diffstat.strip(),
                        "commands": ["git apply patch.diff", "/venv/bin/python -m pytest -q -p no:cacheprovider unittests", "/venv/bin/python mutations/%s/demo.py" % m, "git checkout -- ."],
                    },
                }
                with open(os.path.join(dst, "meta.json"), "w") as f:
                    json.dump(meta, f, indent=1)
    finally:
        sh("git -C /repo worktree remove --force %s" % scratch, "/")
    for r in report:
        print(*r)


if __name__ == "__main__":
    main()
