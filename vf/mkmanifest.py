"""Regenerates MANIFEST.json from the table below (kept valid at all times)."""
import json
import os

HERE = os.path.dirname(os.path.dirname(os.path.abspath(__file__)))

T = "bounded symbolic execution of the real code (CrossHair + z3): inputs, lengths, parameters, fault/cancel positions and schedule choices are solver variables; path tree exhausted within stated bounds; counterexamples replayed natively"

CHECKS = {}
NOT_APPLICABLE = {}


def load():
    import importlib
    import sys

    sys.path.insert(0, HERE)
    sys.path.insert(0, "/repo")
    out = []
    for i in range(1, 21):
        pid = "C%02d" % i
        path = os.path.join(HERE, "harness", pid.lower() + ".py")
        if not os.path.exists(path):
            continue
        mod = importlib.import_module("harness." + pid.lower())
        m = getattr(mod, "MANIFEST", {})
        out.append(
            {
                "property_id": pid,
                "quick_cmd": "./check %s --tier quick" % pid,
                "thorough_cmd": "./check %s --tier thorough" % pid,
                "evidence_file": "/verif/evidence/%s.json" % pid,
                "replay_cmd_template": "./check replay {path}",
                "engine": "crosshair-z3",
                "level_claimed": {
                    "category": getattr(mod, "LEVEL", "other"),
                    "text": m.get("text", "Bounded symbolic execution of the real asyncstdlib functions: holds for every value of the symbolic inputs within the bounds stated in the evidence file (path tree exhausted, each branch decided by z3); nothing is claimed outside the bounds."),
                    "design_ref": "DESIGN.md section 4, %s" % pid,
                },
                "level_note": m.get("note", "Trusted: CrossHair 0.0.110's interpretation of CPython semantics and its listed stdlib substitutions, z3 5.1.0, the harness oracles (real stdlib functions; spec models only where stated, validated against the stdlib on a concrete grid at every run). Bounds and the part of the quantifier outside them are listed in the evidence file."),
                "technique": m.get("technique", T),
            }
        )
    return out


def main():
    checks = load()
    claimed = {c["property_id"] for c in checks}
    na = []
    na_path = os.path.join(HERE, "not_applicable.json")
    reasons = json.load(open(na_path)) if os.path.exists(na_path) else {}
    for i in range(1, 21):
        pid = "C%02d" % i
        if pid not in claimed:
            na.append({"property_id": pid, "reason": reasons.get(pid, "check not built yet in this round (planned: see DESIGN.md section 4); not claimed until its harness exists")})
    man = {
        "version": 1,
        "setup_cmd": "./setup.sh",
        "hooks": {
            "guard": "ASYNCSTDLIB_VERIF",
            "enable": "none needed: all observation is through instrumented arguments and the public API; checks run with PYTHONPATH=/repo so the working tree is what is analysed",
            "baseline_off_cmd": "cd /repo && /venv/bin/python -m pytest -ra -q -p no:cacheprovider --timeout=900 --continue-on-collection-errors",
            "source_commits": [],
            "add_only": True,
        },
        "engines": [{"name": "crosshair-z3", "path": "/verif/vf", "serves_properties": sorted(claimed), "kind_free_text": "bounded symbolic execution of the real Python code: CrossHair 0.0.110 + z3 5.1.0 (overlay venv built offline by setup.sh), harness functions with PEP316 contracts under /verif/harness"}],
        "checks": checks,
        "not_applicable": na,
        "notes": "Solver-based checking of the real code. ./check exits 0 (held on everything explored), 1 (VIOLATION line, counterexample reproduced natively), 2 (harness/encoding error). known_findings.json lists open findings and fixed: entries.",
    }
    with open(os.path.join(HERE, "MANIFEST.json"), "w") as f:
        json.dump(man, f, indent=1)
    print("MANIFEST.json: %d checks, %d not applicable" % (len(checks), len(na)))


if __name__ == "__main__":
    main()
