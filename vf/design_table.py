"""Markdown summary of what each check covers as built (from the harness modules)."""
import importlib
import inspect
import os
import sys

HERE = os.path.dirname(os.path.dirname(os.path.abspath(__file__)))
sys.path.insert(0, HERE)
sys.path.insert(0, "/repo")


def main():
    for i in range(1, 21):
        pid = "C%02d" % i
        m = importlib.import_module("harness." + pid.lower())
        fns = sorted({j["fn"] if j["module"] == pid.lower() else "%s.%s" % (j["module"], j["fn"]) for j in m.jobs("quick") + m.jobs("thorough")})
        print("### %s (as built) - level `%s`" % (pid, getattr(m, "LEVEL", "other")))
        print("* harness functions: %s; jobs: %d quick / %d thorough" % (", ".join("`%s`" % f for f in fns), len(m.jobs("quick")), len(m.jobs("thorough"))))
        print("* quick bounds: %s" % m.BOUNDS.get("quick", ""))
        print("* thorough bounds: %s" % m.BOUNDS.get("thorough", ""))
        print("* outside the bounded claim: %s" % "; ".join(m.OUTSIDE))
        if getattr(m, "ASSUMPTIONS", None):
            print("* additional assumptions: %s" % "; ".join(m.ASSUMPTIONS))
        print()


if __name__ == "__main__":
    main()
