"""Run registered checks against a seeded change: apply patch to /repo, run, undo.

  python -m vf.mutest <seeded-dir> [<Cxx> ...] [--tier quick] [--only substr]

Never leaves /repo modified (git checkout -- . in a finally block)."""
import json
import os
import subprocess
import sys
import time

HERE = os.path.dirname(os.path.dirname(os.path.abspath(__file__)))
REPO = "/repo"


def main(argv):
    d = os.path.abspath(argv[0])
    props = [a for a in argv[1:] if a.startswith("C") and len(a) == 3]
    tier = "quick"
    only = None
    if "--tier" in argv:
        tier = argv[argv.index("--tier") + 1]
    if "--only" in argv:
        only = argv[argv.index("--only") + 1]
    meta_p = os.path.join(d, "meta.json")
    meta = json.load(open(meta_p)) if os.path.exists(meta_p) else {}
    if not props:
        props = [meta.get("property")]
    st = subprocess.run(["git", "-C", REPO, "status", "--porcelain"], capture_output=True, text=True).stdout.strip()
    if st:
        print("refusing: /repo has local modifications:\n" + st)
        return 2
    subprocess.check_call(["git", "-C", REPO, "apply", os.path.join(d, "patch.diff")])
    results = {}
    try:
        for p in props:
            cmd = [os.path.join(HERE, "check"), p, "--tier", tier]
            if only:
                cmd += ["--only", only]
            t0 = time.time()
            env = dict(os.environ)
            env["VERIF_OUT"] = os.path.join("/tmp", "verif-mut-out")
            pr = subprocess.run(cmd, cwd=HERE, capture_output=True, text=True, env=env)
            lines = [l for l in pr.stdout.splitlines() if l.startswith(("VIOLATION", "  counterexample", "HARNESS-ERROR", "KNOWN-FINDING")) or " tier=" in l]
            results[p] = {"exit": pr.returncode, "wall_s": round(time.time() - t0, 1), "lines": lines[:12]}
            print(p, "exit", pr.returncode, "%.0fs" % (time.time() - t0))
            for l in lines[:6]:
                print("   ", l[:300])
    finally:
        subprocess.check_call(["git", "-C", REPO, "checkout", "--", "."])
    out = {"ran": time.strftime("%Y-%m-%d %H:%M"), "tier": tier, "only": only, "results": results}
    with open(os.path.join(d, "result_%s.json" % tier), "w") as f:
        json.dump(out, f, indent=1)
    return 0


if __name__ == "__main__":
    sys.exit(main(sys.argv[1:]))
