"""Run registered checks against a seeded change.

  python -m vf.mutest <seeded-dir> [<Cxx> ...] [--tier quick] [--only substr] [--in-repo]

Default: the patch is applied to a scratch git worktree of /repo's HEAD under /tmp and the
checks run with VERIF_REPO pointing at it (so /repo is never touched and several runs can go
in parallel); evidence/replays of these runs go to a scratch directory. With --in-repo the
patch is applied to /repo itself (git -C /repo apply), the checks run exactly as registered,
and it is undone straight afterwards (git -C /repo checkout -- .) in a finally block."""
import json
import os
import subprocess
import sys
import time

HERE = os.path.dirname(os.path.dirname(os.path.abspath(__file__)))
REPO = "/repo"


def main(argv):
    d = os.path.abspath(argv[0])
    props = [a for a in argv[1:] if a.startswith("C") and len(a) == 3 and a[1:].isdigit()]
    tier = "quick"
    only = None
    if "--tier" in argv:
        tier = argv[argv.index("--tier") + 1]
    if "--only" in argv:
        only = argv[argv.index("--only") + 1]
    in_repo = "--in-repo" in argv
    meta_p = os.path.join(d, "meta.json")
    meta = json.load(open(meta_p)) if os.path.exists(meta_p) else {}
    if not props:
        props = [meta.get("property")]
    sid = os.path.basename(d)
    env = dict(os.environ)
    env["VERIF_OUT"] = os.path.join("/tmp", "verif-mut-out", sid)
    if in_repo:
        st = subprocess.run(["git", "-C", REPO, "status", "--porcelain"], capture_output=True, text=True).stdout.strip()
        if st:
            print("refusing: /repo has local modifications:\n" + st)
            return 2
        target = REPO
    else:
        target = os.path.join("/tmp", "verif-mut-wt", sid)
        subprocess.run(["git", "-C", REPO, "worktree", "remove", "--force", target], capture_output=True)
        subprocess.check_call(["git", "-C", REPO, "worktree", "add", "-q", "--detach", target, "HEAD"])
        env["VERIF_REPO"] = target
    subprocess.check_call(["git", "-C", target, "apply", os.path.join(d, "patch.diff")])
    results = {}
    try:
        for p in props:
            cmd = [os.path.join(HERE, "check"), p, "--tier", tier]
            if only:
                cmd += ["--only", only]
            t0 = time.time()
            pr = subprocess.run(cmd, cwd=HERE, capture_output=True, text=True, env=env)
            lines = [l for l in pr.stdout.splitlines() if l.startswith(("VIOLATION", "  counterexample", "HARNESS-ERROR", "KNOWN-FINDING")) or " tier=" in l]
            results[p] = {"exit": pr.returncode, "wall_s": round(time.time() - t0, 1), "lines": [l[:400] for l in lines[:12]]}
            print(sid, p, "exit", pr.returncode, "%.0fs" % (time.time() - t0))
            for l in lines[:5]:
                print("   ", l[:260])
    finally:
        if in_repo:
            subprocess.check_call(["git", "-C", REPO, "checkout", "--", "."])
        else:
            subprocess.run(["git", "-C", REPO, "worktree", "remove", "--force", target], capture_output=True)
        subprocess.run(["rm", "-rf", env["VERIF_OUT"]])
    out = {"ran": time.strftime("%Y-%m-%d %H:%M"), "tier": tier, "only": only, "mode": "in-repo" if in_repo else "scratch-worktree", "results": results}
    name = "result_%s%s.json" % (tier, "" if set(props) == {meta.get("property")} else "_" + "_".join(props))
    with open(os.path.join(d, name), "w") as f:
        json.dump(out, f, indent=1)
    return 0


if __name__ == "__main__":
    sys.exit(main(sys.argv[1:]))
