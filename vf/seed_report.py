"""Markdown table of seeded changes and which check caught them (from seeded/*/result_*.json)."""
import glob
import json
import os

HERE = os.path.dirname(os.path.dirname(os.path.abspath(__file__)))


def main():
    rows = []
    for d in sorted(glob.glob(os.path.join(HERE, "seeded", "*"))):
        if not os.path.isdir(d):
            continue
        meta = json.load(open(os.path.join(d, "meta.json")))
        sid = meta["id"]
        first = (meta.get("needs_to_manifest") or "").strip().splitlines()
        what = first[0][:150] if first else ""
        caught = []
        missed = []
        for rf in sorted(glob.glob(os.path.join(d, "result_*.json"))):
            r = json.load(open(rf))
            for p, res in r["results"].items():
                sigs = set()
                for l in res["lines"]:
                    if "signatures=" in l:
                        sigs.update(l.split("signatures=")[1].split(","))
                tag = "%s/%s" % (p, r["tier"])
                if res["exit"] == 1:
                    caught.append("%s: %s" % (tag, ", ".join(sorted(sigs))[:140]))
                elif res["exit"] == 0:
                    missed.append(tag)
                else:
                    missed.append(tag + " (harness error)")
        verdict = meta.get("verdict", "")
        rows.append("| %s | %s | %s | %s |" % (sid, what.replace("|", "/"), "; ".join(caught) or "-", verdict or ("missed by " + ", ".join(missed) if missed and not caught else "")))
    print("| seeded change | what it does (first line of the author's notes) | caught by (check/tier: signatures) | remark |")
    print("|---|---|---|---|")
    for r in rows:
        print(r)


if __name__ == "__main__":
    main()
