#!/bin/sh
# run every property's check sequentially: sh vf/run_all.sh <tier> [C01 C02 ...]
tier=${1:-quick}; shift
props=${@:-C01 C02 C03 C04 C05 C06 C07 C08 C09 C10 C11 C12 C13 C14 C15 C16 C17 C18 C19 C20}
for p in $props; do
  start=$(date +%s)
  ./check $p --tier $tier > out_$p.txt 2>err_$p.txt; rc=$?
  echo "$p tier=$tier exit=$rc wall=$(( $(date +%s) - start ))s :: $(grep ' tier=' out_$p.txt | tail -1)"
  grep -E '^(VIOLATION|HARNESS-ERROR|INCONCLUSIVE|KNOWN-FINDING)' out_$p.txt | cut -c1-220 | head -40
done
