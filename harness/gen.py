"""Generic drivers over the tool table, shared by C03/C04/C05/C06/C17/C18."""
from .world import P, World, Driver, Item, Cancel, fail, finish, same, same_seq, same_ending, same_outcome, take_sync, call_sync, Suspended, reset_run, make_fault, ITER_FLAVOURS, FN_FLAVOURS, conc
from .tools import TOOLS, AGGS, Data, Opts, total_out
from .c01 import build_data


def op_of(name):
    if name in TOOLS:
        return TOOLS[name], "tool"
    return AGGS[name], "agg"


def pre_gen(n0, n1, n2, p0, p1, p2, x, y, z):
    N = P("N", 2)
    S = P("S", 1)
    ok = 0 <= n0 <= N
    if S > 1:
        ok = ok and 0 <= n1 <= N
    else:
        ok = ok and n1 == 0
    if S > 2:
        ok = ok and 0 <= n2 <= N
    else:
        ok = ok and n2 == 0
    L = P("L")
    if L is not None:  # exact lengths
        for want, got in zip(L, (n0, n1, n2)):
            ok = ok and got == want
    name = P("op")
    if P("pr", True):  # small parameter ranges (real C tools are the oracle)
        R = P("PR", N + 2)
        if name == "islice":
            ok = ok and 0 <= p0 <= R and 0 <= p1 <= R and 1 <= p2 <= 3
        elif name in ("batched", "batched_real"):
            ok = ok and (1 if (name == "batched_real" or P("valid_only", False)) else 0) <= p0 <= N + 1
        elif name in ("nlargest", "nsmallest"):
            ok = ok and -1 <= p0 <= N + 1
        elif name == "enumerate":
            ok = ok and -1 <= p0 <= 1
    for nm, v in (("p0", p0), ("p1", p1), ("p2", p2)):
        if P(nm) is not None:
            ok = ok and v == P(nm)
    xr, yr, zr = P("X", (0, 0)), P("Y", (0, 0)), P("Z", (0, 0))
    ok = ok and xr[0] <= x <= xr[1] and yr[0] <= y <= yr[1] and zr[0] <= z <= zr[1]
    return ok


def fix_flags(b0, b1, b2):
    ok = True
    for nm, v in (("b0", b0), ("b1", b1), ("b2", b2)):
        if P(nm) is not None:
            ok = ok and v == P(nm)
    return ok


def mkdata(keys, lens, p, b):
    S = P("S", 1)
    return build_data(keys, lens, p, b, S, P("form"))


def pick(seq, sel):
    for i in range(len(seq) - 1):
        if sel == i:
            return seq[i]
    return seq[len(seq) - 1]


def start_async(op, kind, Wa, d, o):
    """Build the asyncstdlib side; returns ('it', iterator) / ('aw', awaitable) / ('exc', e)."""
    r = call_sync(op.a, Wa, d, o)
    if r[0] == "exc":
        return ("exc", r[1])
    return ("it" if kind == "tool" else "aw", r[1])


def run_async(op, kind, Wa, D, d, o, steps=None, log_yields=False):
    """Returns (items, ending, handle). ending: None / 'stop' / exception / ('value', v)."""
    st = start_async(op, kind, Wa, d, o)
    if st[0] == "exc":
        return [], st[1], None
    if kind == "agg":
        r = D.call(st[1])
        if r[0] == "ok":
            return [], ("value", r[1]), None
        return [], r[1], None
    ait = st[1]
    cap = total_out(op, d) if steps is None else steps
    out = []
    end = None
    for i in range(cap):
        got, end = D.take(ait, 1)
        if got:
            out.append(got[0])
            if log_yields:
                Wa.log.append(("yield", len(out)))
        if end is not None:
            break
    return out, end, ait


def run_sync(op, kind, Ws, d, o, steps=None, log_yields=False, spec=False):
    sb = op.spec if (spec and getattr(op, "spec", None) is not None) else op.s
    r = call_sync(sb, Ws, d, o)
    if r[0] == "exc":
        return [], r[1]
    if kind == "agg":
        return [], ("value", r[1])
    it = r[1]
    cap = total_out(op, d) if steps is None else steps
    out = []
    end = None
    for i in range(cap):
        got, end = take_sync(it, 1)
        if got:
            out.append(got[0])
            if log_yields:
                Ws.log.append(("yield", len(out)))
        if end is not None:
            break
    return out, end


def endings_match(ea, es, fault=None):
    if type(ea) is tuple and type(es) is tuple and ea and es and ea[0] == "value" and es[0] == "value":
        va, vs = ea[1], es[1]
        if type(vs) is bool or type(va) is bool:
            return va is vs
        return same(va, vs)
    if type(ea) is tuple or type(es) is tuple:
        return False
    return same_ending(ea, es, fault)


def endkind(e):
    if e is None or e == "stop":
        return e
    if type(e) is tuple:
        return "value"
    return type(e).__name__


def logs_equal(la, ls):
    la = [e for e in la if e[0] != "close"]
    ls = [e for e in ls if e[0] != "close"]
    if len(la) != len(ls):
        return False
    for a, b in zip(la, ls):
        if not same(a, b):
            return False
    return True


def n_items(d):
    t = 0
    for s in d.srcs:
        t += len(s)
    return t
