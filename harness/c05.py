"""C05 — laziness: sources pulled and callables invoked in the stdlib's order."""
from .world import P, World, Driver, fail, finish, Suspended, reset_run
from .tools import Opts
from .gen import op_of, pre_gen, fix_flags, mkdata, run_async, run_sync, endings_match, endkind, logs_equal, n_items
from .world import same_seq

PROPERTY = "C05"


def h_lazy(k0: int, k1: int, k2: int, k3: int, k4: int, k5: int, k6: int, k7: int, n0: int, n1: int, n2: int, p0: int, p1: int, p2: int, b0: bool, b1: bool, b2: bool, x: int, y: int, z: int):
    """
    pre: pre_gen(n0, n1, n2, p0, p1, p2, x, y, z)
    pre: fix_flags(b0, b1, b2)
    post: _[0]
    post: not _[1]
    """
    reset_run()
    op, kind = op_of(P("op"))
    d = mkdata([k0, k1, k2, k3, k4, k5, k6, k7], [n0, n1, n2, 0], [p0, p1, p2], [b0, b1, b2])
    o = Opts(fl=(P("fls") or [P("fl", "agen")] * 4), ffl=P("ffl", "def"))
    Wa, Ws = World("a"), World("s")
    D = Driver(Wa, sync_only=True)
    steps = None if kind == "agg" else x
    try:
        out_a, end_a, _h = run_async(op, kind, Wa, D, d, o, steps=steps, log_yields=True)
    except Suspended:
        return finish(fail("%s:suspended-with-nonsuspending-arguments" % op.name), False)
    out_s, end_s = run_sync(op, kind, Ws, d, o, steps=steps, log_yields=True)
    ok = True
    if not logs_equal(Wa.log, Ws.log):
        ok = fail("%s:event-log-differs" % op.name, (Wa.log, Ws.log)) and ok
    if not same_seq(out_a, out_s):
        ok = fail("%s:items-differ" % op.name, (out_a, out_s)) and ok
    if not endings_match(end_a, end_s):
        ok = fail("%s:ending-differs" % op.name, (end_a, end_s)) and ok
    if Wa.viol:
        ok = fail("%s:%s" % (op.name, Wa.viol[0])) and ok
    nontrivial = n_items(d) >= 2 and len(Ws.log) >= 3
    return finish(ok, nontrivial, (op.name, tuple(len(s) for s in d.srcs), len(out_s), len(Ws.log), endkind(end_s)))


def _grid():
    import random

    rnd = random.Random(11)
    N, S = P("N", 2), P("S", 1)
    X = P("X", (0, 0))
    out = []
    for _ in range(120):
        ns = [rnd.randint(0, N) if i < S else 0 for i in range(3)]
        b = [P("b%d" % i) if P("b%d" % i) is not None else rnd.random() < 0.5 for i in range(3)]
        p0 = rnd.randint(0, N + 2)
        if P("op") == "batched_real":
            p0 = max(p0, 1)
        if P("op") in ("nlargest", "nsmallest", "enumerate"):
            p0 = rnd.randint(-1, 1)
        if P("op") in ("batched", "batched_real"):
            p0 = min(p0, N + 1)
        out.append(tuple([rnd.choice([-1, 0, 1, 1, 2]) for _ in range(8)] + ns + [p0, rnd.randint(0, N + 2), rnd.randint(1, 3)] + b + [rnd.randint(X[0], X[1]), 0, 0]))
    return out


GRID = {"h_lazy": _grid}

SINGLE = ["filter", "filter_none", "filterfalse", "filterfalse_none", "takewhile", "dropwhile", "pairwise", "cycle", "accumulate_f", "accumulate_f_init", "iter_sentinel", "enumerate", "batched_real", "batched", "starmap"]


def jobs(tier):
    q = tier == "quick"
    T = 300 if q else 900
    J = []

    def add(op, S, N, steps, **kw):
        part = {"op": op, "S": S, "N": N, "X": (0, steps)}
        part.update(kw)
        J.append({"module": "c05", "fn": "h_lazy", "part": part, "timeout": T})

    N1 = 3 if q else 5
    for op in SINGLE:
        add(op, 1, N1, N1 + 2 if op != "cycle" else 2 * N1 + 2)
    for form in (1, 2):
        add("islice", 1, (3 if q else 5), 5, form=form, PR=(4 if q else 6))
    for step in (1, 2, 3):
        add("islice", 1, (3 if q else 4), 5, form=3, PR=(3 if q else 5), p2=step, b2=False)
    for S in (1, 2, 3):
        n = {1: N1, 2: (3 if q else 4), 3: 2}[S]
        for op in ("zip", "zip_longest", "map", "chain", "chain_from"):
            add(op, S, n, n * (S if op.startswith("chain") else 1) + 2)
    add("compress", 2, 3 if q else 4, 5)
    add("starmap", 2, 3, 5)
    for S, n in ((1, 3), (2, 2 if q else 3)):
        for b0 in (False, True):
            add("merge", S, n, S * n + 2, b0=b0)
    for b0 in (False, True):
        for b1 in (False, True):
            add("merge", 3, 1, 5, b0=b0, b1=b1)
            if not q:
                for L in ([2, 2, 1], [2, 1, 2], [1, 2, 2], [2, 2, 2]):
                    add("merge", 3, 2, 8, b0=b0, b1=b1, L=L)
    for op in ("all", "any"):
        add(op, 1, 4 if q else 6, 0)
    # callables that work at call time and return an awaitable: every call is a use
    for op in ("map", "filter", "filterfalse", "takewhile", "dropwhile", "starmap", "accumulate_f", "iter_sentinel"):
        add(op, 1, 2, 4, ffl="defaw", fl="acls")
    add("merge", 2, 1, 4, ffl="defaw", b1=True)
    for op in ("filter", "filterfalse", "takewhile", "dropwhile", "map"):
        add(op, 1, 2, 4, ffl="fobj")
    add("zip_longest_shared", 1, 3, 4)
    add("zip_longest_shared3", 1, 4, 4)
    # groupby (its group handling is C16's subject): the parent iterator pulls and calls the key like the stdlib's
    add("groupby_keys", 1, 3, 5)
    add("groupby_keys", 1, 3, 5, pool=True)
    add("groupby_keys_f", 1, 3, 5)
    add("groupby_keys_f", 1, 2, 4, ffl="adef")
    add("cycle", 1, 2, 7, fl="llist")
    add("cycle", 1, 3, 8, fl="seq")
    for op in ("zip", "map", "zip_longest", "compress"):
        add(op, 2, 2, 4, fls=["agen", "list", "agen", "list"])
        add(op, 2, 2, 4, fls=["list", "acls", "list", "acls"])
    return J


LEVEL = "other"
BOUNDS = {
    "quick": "consumer steps j = 0..total+2 (symbolic), S<=3 sources, N<=3 items (S=3: N<=2), islice/batched/enumerate parameters in 0..N+2 (real C tools as oracle), keys unbounded; async-generator sources and def callables; extra jobs: callables doing their work at call time, falsy callable objects, cycle over an instrumented list / __getitem__ sequence, mixed async / plain-list arguments, one iterator in 2..3 positions of zip_longest, groupby pulls and key calls (incl. first keys equal to None)",
    "thorough": "N<=5 (S=2: 4), same structure",
}
OUTSIDE = ["pulls on a source that already signalled exhaustion are not events (CPython's own tools differ among themselves there)", "lengths above the bound", "aggregations other than all/any (they consume everything)"]
NONTRIVIAL_RULE = ">=2 source items and >=3 logged events on the path"

MANIFEST = {
    "text": 'Event logs (pulls, end-of-source detections, callable invocations with arguments, yields) of the asyncstdlib tool over instrumented async sources and of the real stdlib tool over instrumented sync sources are compared after a symbolic number of consumer steps. Nothing is claimed outside the bounds listed in the evidence file.',
    "note": "Trusted: CrossHair 0.0.110 (with short-circuiting off and a refined callable() model), z3 5.1.0, the harness oracles. Pulls on a source that already signalled exhaustion are not events (CPython's own tools differ there); parameter ranges small so that the real C tools are the oracle.",
}
