"""Shared signature helper for schedule harnesses: 28 symbolic choice ints."""
NCH = 28
CH_ARGS = ", ".join("c%d: int" % i for i in range(NCH))
CH_NAMES = ", ".join("c%d" % i for i in range(NCH))


def fix(c0, c1):
    """Optional partition by the first (and second) scheduling choice: PART c0 / c1 name the
    alternative taken; every int maps onto some alternative, so pinning the int loses nothing."""
    from .world import P

    ok = True
    if P("c0") is not None:
        ok = ok and c0 == P("c0")
    if P("c1") is not None:
        ok = ok and c1 == P("c1")
    return ok


def define(name, extra_sig, extra_names, pre_name, body_name, module_globals):
    """Defines `def name(c0..c27, <extra>)` with the PEP316 contract calling body_name(choices, extra...)."""
    src = (
        "def {name}({ch}, {extra_sig}):\n"
        '    """\n'
        "    pre: {pre}({extra_names})\n"
        "    pre: _sched_fix(c0, c1)\n"
        "    post: _[0]\n"
        "    post: not _[1]\n"
        '    """\n'
        "    return {body}([{chn}], {extra_names})\n"
    ).format(name=name, ch=CH_ARGS, extra_sig=extra_sig, pre=pre_name, extra_names=extra_names, body=body_name, chn=CH_NAMES)
    module_globals["_sched_fix"] = fix
    import linecache

    fname = "<sched:%s>" % name
    linecache.cache[fname] = (len(src), None, src.splitlines(True), fname)
    code = compile(src, fname, "exec")
    exec(code, module_globals)
    return module_globals[name]
