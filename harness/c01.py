"""C01 — iterator tools produce exactly what their standard-library namesakes produce."""
import itertools

import asyncstdlib as A

from .world import P, World, Driver, Item, finish, fail, same_seq, same_ending, take_sync, call_sync, Suspended, HarnessError
from .tools import TOOLS, Data, Opts, total_out, islice_spec, batched_spec

PROPERTY = "C01"
NK = 12


def _lens_ok(n0, n1, n2, n3):
    N = P("N", 3)
    S = P("S", 1)
    L = P("L")
    if L is not None:  # exact lengths fixed by the partition
        ok = True
        for want, n in zip(L, (n0, n1, n2, n3)):
            ok = ok and n == want
        return ok
    ok = 0 <= n0 <= N
    if S > 1:
        ok = ok and 0 <= n1 <= N
    if S > 2:
        ok = ok and 0 <= n2 <= N
    if S > 3:
        ok = ok and 0 <= n3 <= N
    return ok


def _keys_ok(*ks):
    if not P("pool", False):
        return True
    ok = True
    for k in ks:
        ok = ok and 0 <= k < len(VALUE_POOL)
    return ok


def _params_ok(p0, p1, p2):
    t = P("tool")
    if t == "islice":
        return p0 >= 0 and p1 >= 0 and p2 >= 1
    return True


VALUE_POOL = (None, 0, 1)


def _pool_pick(sel):
    for i in range(len(VALUE_POOL) - 1):
        if sel == i:
            return VALUE_POOL[i]
    return VALUE_POOL[len(VALUE_POOL) - 1]


def build_data(keys, lens, p, b, S, extra=None):
    srcs = []
    ki = 0
    pool = P("pool", False)  # items are None / falsy plain values chosen by the (symbolic) keys
    for i in range(S):
        n = lens[i]
        row = []
        for j in range(n):
            if pool:
                row.append(_pool_pick(keys[ki % len(keys)]))
            else:
                row.append(Item(keys[ki % len(keys)], "%d.%d" % (i, j)))
            ki += 1
        srcs.append(row)
    d = Data(srcs, p, b, extra)
    return d


def run_both(tool, d, o, cap=None, use_spec=False):
    """Run the asyncstdlib tool and the stdlib tool to the end; compare."""
    Wa, Ws = World("a"), World("s")
    Wa.aclose_ret = P("aclose_ret")
    D = Driver(Wa, sync_only=True)
    cap = total_out(tool, d) if cap is None else cap
    try:
        ait = tool.a(Wa, d, o)
        out_a, end_a = D.take(ait, cap)
    except Suspended:
        fail("%s:suspended-with-nonsuspending-arguments" % tool.name)
        return None
    sb = tool.spec if (use_spec and tool.spec is not None) else tool.s
    r = call_sync(sb, Ws, d, o)
    if r[0] == "exc":
        out_s, end_s = [], r[1]
    else:
        out_s, end_s = take_sync(r[1], cap)
    ok = True
    if not same_seq(out_a, out_s):
        ok = fail("%s:items-differ" % tool.name, (out_a, out_s)) and ok
    if not same_ending(end_a, end_s):
        ok = fail("%s:ending-differs" % tool.name, (end_a, end_s)) and ok
    if Wa.viol:
        ok = fail("%s:%s" % (tool.name, Wa.viol[0])) and ok
    return ok, out_a, out_s, end_s


def h_tool(k0: int, k1: int, k2: int, k3: int, k4: int, k5: int, k6: int, k7: int, k8: int, k9: int, k10: int, k11: int, n0: int, n1: int, n2: int, n3: int, p0: int, p1: int, p2: int, b0: bool, b1: bool, b2: bool):
    """
    pre: _lens_ok(n0, n1, n2, n3)
    pre: _params_ok(p0, p1, p2)
    pre: _keys_ok(k0, k1, k2, k3, k4, k5, k6, k7, k8, k9, k10, k11)
    post: _[0]
    post: not _[1]
    """
    from .world import reset_run

    reset_run()
    tool = TOOLS[P("tool")]
    S = P("S", 1)
    keys = [k0, k1, k2, k3, k4, k5, k6, k7, k8, k9, k10, k11]
    lens = [n0, n1, n2, n3]
    d = build_data(keys, lens, [p0, p1, p2], [b0, b1, b2], S, P("form"))
    o = Opts(fl=(P("fls") or [P("fl", "agen")] * 4), ffl=P("ffl", "def"))
    o.raising = P("raising", False)
    r = run_both(tool, d, o, use_spec=P("spec", False))
    if r is None:
        return finish(False, False)
    ok, out_a, out_s, end_s = r
    total = 0
    for s in d.srcs:
        total += len(s)
    nontrivial = (total >= 2 and len(out_s) >= 1) if S else True
    shape = (tool.name, tuple(len(s) for s in d.srcs), len(out_s), _endkind(end_s))
    return finish(ok, nontrivial, shape)


def _endkind(e):
    if e is None or e == "stop":
        return e
    return type(e).__name__


def _merge_fix(rev, usekey):
    ok = True
    if P("rev") is not None:
        ok = ok and rev == P("rev")
    if P("usekey") is not None:
        ok = ok and usekey == P("usekey")
    return ok


def _merge_pre(d0, d1, d2, d3, d4, d5, d6, d7):
    return d0 >= 0 and d1 >= 0 and d2 >= 0 and d3 >= 0 and d4 >= 0 and d5 >= 0 and d6 >= 0 and d7 >= 0


def h_merge(base0: int, base1: int, base2: int, base3: int, d0: int, d1: int, d2: int, d3: int, d4: int, d5: int, d6: int, d7: int, n0: int, n1: int, n2: int, n3: int, rev: bool, usekey: bool):
    """
    pre: _lens_ok(n0, n1, n2, n3)
    pre: _merge_pre(d0, d1, d2, d3, d4, d5, d6, d7)
    pre: _merge_fix(rev, usekey)
    post: _[0]
    post: not _[1]
    """
    from .world import reset_run

    reset_run()
    tool = TOOLS["merge"]
    S = P("S", 2)
    bases = [base0, base1, base2, base3]
    deltas = [d0, d1, d2, d3, d4, d5, d6, d7]
    lens = [n0, n1, n2, n3]
    srcs = []
    di = 0
    for i in range(S):
        row = []
        cur = bases[i]
        for j in range(lens[i]):
            if j:
                dl = deltas[di % len(deltas)]
                di += 1
                cur = cur - dl if rev else cur + dl
            row.append(Item(cur, "%d.%d" % (i, j)))
        srcs.append(row)
    d = Data(srcs, [], [rev, usekey])
    o = Opts(fl=(P("fls") or [P("fl", "agen")] * 4), ffl=P("ffl", "def"))
    r = run_both(tool, d, o)
    if r is None:
        return finish(False, False)
    ok, out_a, out_s, end_s = r
    nonempty = 0
    for s in srcs:
        if len(s):
            nonempty += 1
    L = P("L")
    degenerate = L is not None and (sum(L) < 3 or sum(1 for v in L if v) < 2)  # fixed lengths too small to be non-trivial
    nontrivial = True if degenerate else ((nonempty >= 2 and len(out_s) >= 3) if S >= 2 else (len(out_s) >= 2 if S else True))
    return finish(ok, nontrivial, ("merge", tuple(len(s) for s in srcs), bool(rev), bool(usekey)))


def h_accumulate_add(a0: int, a1: int, a2: int, a3: int, a4: int, n: int, init: int, has_init: bool):
    """
    pre: 0 <= n <= P("N", 5)
    post: _[0]
    post: not _[1]
    """
    from .world import reset_run

    reset_run()
    src = [a0, a1, a2, a3, a4]
    vals = []
    for j in range(n):
        vals.append(src[j])
    if P("kind", "int") == "list":
        # mutable items: the default reduction must not modify them (x + y, not x += y)
        vals = [[v] for v in vals]
        init = [init]
        snap = [list(v) for v in vals]
        init_snap = list(init)
    Wa = World("a")
    D = Driver(Wa, sync_only=True)
    try:
        if has_init:
            ait = A.accumulate(Wa.source(vals, P("fl", "agen")), initial=init)
            exp = list(itertools.accumulate(list(vals), initial=init))
        else:
            ait = A.accumulate(Wa.source(vals, P("fl", "agen")))
            exp = list(itertools.accumulate(list(vals)))
        out, end = D.take(ait, len(vals) + 2)
    except Suspended:
        return finish(fail("accumulate:suspended-with-nonsuspending-arguments"), False)
    ok = True
    if not vals and not has_init:
        # documented deviation: TypeError instead of an empty iterator
        if out or type(end) is not TypeError:
            ok = fail("accumulate:empty-without-initial-must-raise-TypeError", (out, end))
    else:
        if len(out) != len(exp) or end != "stop":
            ok = fail("accumulate:running-sums-length-differs", (out, exp, end))
        else:
            for x, y in zip(out, exp):
                if not (x == y):  # decided by the solver for all integer values
                    ok = fail("accumulate:running-sum-differs", (out, exp)) and ok
    if P("kind", "int") == "list":
        for v, sv in zip(vals, snap):
            if len(v) != len(sv):
                ok = fail("accumulate:input-item-mutated", (vals, snap)) and ok
        if len(init) != len(init_snap):
            ok = fail("accumulate:initial-mutated") and ok
        for i in range(len(out)):
            for j in range(i):
                if out[i] is out[j] and len(out) > 1:
                    ok = fail("accumulate:same-object-yielded-twice") and ok
    return finish(ok, len(vals) >= 2, ("accumulate_add", P("kind", "int"), len(vals), bool(has_init)))


def _tee_pre(n, m, o0, o1, o2, o3, o4, o5, o6, o7):
    return 0 <= n <= P("N", 3) and 0 <= m <= P("M", 6)


def h_tee(n: int, m: int, o0: int, o1: int, o2: int, o3: int, o4: int, o5: int, o6: int, o7: int):
    """
    pre: _tee_pre(n, m, o0, o1, o2, o3, o4, o5, o6, o7)
    post: _[0]
    post: not _[1]
    """
    from .world import reset_run

    reset_run()
    C = P("C", 2)
    ops = [o0, o1, o2, o3, o4, o5, o6, o7]
    items = [Item(0, "0.%d" % j) for j in range(n)]
    if P("none_item") is not None and P("none_item") < n:
        items[P("none_item")] = None  # None is an item like any other
    Wa, Ws = World("a"), World("s")
    D = Driver(Wa, sync_only=True)
    ok = True
    try:
        t = A.tee(Wa.source(items, P("fl", "agen")), C)
        kids_a = [t[i] for i in range(C)]
        if len(t) != C or len(list(t)) != C:
            ok = fail("tee:handle-shape") and ok
        kids_s = itertools.tee(Ws.source(items, "iter"), C)
        got = 0
        for i in range(m):
            op = ops[i % len(ops)]
            c = 0
            for v in range(C - 1):
                if op == v:
                    break
                c += 1
            ra, ea = D.take(kids_a[c], 1)
            rs, es = take_sync(kids_s[c], 1)
            if not same_seq(ra, rs) or not same_ending(ea, es):
                ok = fail("tee:child-items-differ", (i, c, ra, rs)) and ok
            got += len(rs)
    except Suspended:
        return finish(fail("tee:suspended-with-nonsuspending-arguments"), False)
    if Wa.viol:
        ok = fail("tee:%s" % Wa.viol[0]) and ok
    return finish(ok, len(items) >= 2 and got >= 3, ("tee", len(items), got, C))


# ---------------------------------------------------------------------------
# concrete pre-flight grids (also validate the spec oracles against real itertools)
# ---------------------------------------------------------------------------
def _check_specs():
    import itertools as it

    for L in range(0, 7):
        data = list(range(L))
        for start in (None, 0, 1, 2, 5, 8):
            for stop in (None, 0, 1, 2, 3, 6, 9):
                for step in (None, 1, 2, 3, 7):

                    class Cnt:
                        def __init__(self):
                            self.i = 0
                            self.n = 0

                        def __iter__(self):
                            return self

                        def __next__(self):
                            if self.i >= L:
                                raise StopIteration
                            self.i += 1
                            self.n += 1
                            return self.i - 1

                    c1, c2 = Cnt(), Cnt()
                    a = list(it.islice(c1, start, stop, step))
                    b = list(islice_spec(c2, start, stop, step))
                    if a != b or c1.n != c2.n:
                        raise HarnessError("islice_spec disagrees with itertools.islice for %r" % ((L, start, stop, step),))
        for n in (1, 2, 3, 4, 7):
            if list(it.batched(data, n)) != list(batched_spec(data, n)):
                raise HarnessError("batched_spec disagrees with itertools.batched")
            if L % n == 0 and list(batched_spec(data, n, True)) != list(it.batched(data, n)):
                raise HarnessError("batched_spec strict")
    return True


_SPEC_OK = []


def _grid_tool():
    if not _SPEC_OK:
        _SPEC_OK.append(_check_specs())
    import random

    rnd = random.Random(1234)
    N = P("N", 3)
    S = P("S", 1)
    tool = P("tool")
    cases = []
    for _ in range(60):
        ks = [rnd.choice([-1, 0, 1, 1, 2, 3]) for _ in range(NK)]
        ns = [rnd.randint(0, N) for _ in range(4)]
        if tool == "islice":
            ps = [rnd.choice([0, 0, 1, 2, 3, 5]), rnd.choice([0, 1, 2, 3, 4, 6]), rnd.choice([1, 1, 2, 3])]
        else:
            ps = [rnd.choice([-1, 0, 1, 2, 3, 5]), rnd.choice([0, 1, 2, 3]), rnd.choice([1, 2])]
        bs = [rnd.random() < 0.5 for _ in range(3)]
        cases.append(tuple(ks + ns + ps + bs))
    return cases


def _grid_merge():
    import random

    rnd = random.Random(99)
    N = P("N", 2)
    out = []
    for _ in range(60):
        out.append(tuple([rnd.choice([0, 0, 1, 2]) for _ in range(4)] + [rnd.choice([0, 0, 1, 2]) for _ in range(8)] + [rnd.randint(0, N) for _ in range(4)] + [rnd.random() < 0.5, rnd.random() < 0.5]))
    return out


def _grid_tee():
    import random

    rnd = random.Random(7)
    return [tuple([rnd.randint(0, P("N", 3)), rnd.randint(0, P("M", 6))] + [rnd.randint(0, 2) for _ in range(8)]) for _ in range(40)]


GRID = {"h_tool": _grid_tool, "h_merge": _grid_merge, "h_tee": _grid_tee, "h_accumulate_add": lambda: [(1, -2, 3, 0, 5, n, 7, h) for n in range(6) for h in (False, True)]}


def jobs(tier):
    q = tier == "quick"
    J = []

    def add(fn, timeout, **part):
        J.append({"module": "c01", "fn": fn, "part": part, "timeout": timeout})

    T = 300 if q else 900
    N = 3 if q else 4
    for S in (1, 2, 3) if q else (1, 2, 3, 4):
        add("h_tool", T, tool="zip", S=S, N=(N if S < 3 else (2 if q else 3)))
        add("h_tool", T, tool="zip_longest", S=S, N=(N if S < 3 else (2 if q else 3)))
    for S in (1, 2, 3):
        add("h_tool", T, tool="map", S=S, N=(N if S < 3 else 2))
        add("h_tool", T, tool="chain", S=S, N=(N if S < 3 else 2))
        add("h_tool", T, tool="chain_from", S=S, N=(N if S < 3 else 2))
    add("h_tool", T, tool="zip0", S=0)
    add("h_tool", T, tool="zip_longest0", S=0)
    add("h_tool", T, tool="chain", S=0)
    add("h_tool", T, tool="zip_longest_nofill", S=2, N=2)
    N1 = 4 if q else 6
    for t in ("filter", "filter_none", "filterfalse", "filterfalse_none", "takewhile", "dropwhile", "pairwise", "cycle", "accumulate_f", "accumulate_f_init", "iter_sentinel", "enumerate0"):
        add("h_tool", T, tool=t, S=1, N=N1)
    add("h_tool", T, tool="compress", S=2, N=(3 if q else 4))
    add("h_tool", T, tool="starmap", S=1, N=N1)
    add("h_tool", T, tool="starmap", S=2, N=3)
    N2 = 5 if q else 7
    add("h_tool", T, tool="enumerate", S=1, N=N2, spec=True)
    add("h_tool", T, tool="batched", S=1, N=N2, spec=True)
    for form in (1, 2, 3):
        add("h_tool", T, tool="islice", S=1, N=(N2 if form < 3 else (4 if q else 6)), spec=True, form=form)
    for S, Nm in ((0, 0), (1, 3), (2, 3)) if q else ((0, 0), (1, 5), (2, 3)):
        add("h_merge", T, S=S, N=Nm)
    if not q:
        for L in ([4, 4], [4, 3], [3, 4], [4, 2], [2, 4], [4, 1]):
            for rev in (False, True):
                add("h_merge", T, S=2, N=4, L=L, rev=rev)
    import itertools as _it

    if q:
        L3 = [[2, 2, 2], [2, 2, 1], [2, 1, 2], [1, 2, 2], [1, 1, 1], [2, 0, 1]]
    else:
        L3 = [list(l) for l in _it.product((0, 1, 2), repeat=3)] + [[3, 2, 1], [1, 2, 3], [3, 1, 2], [3, 2, 2], [2, 2, 3]] + [[1, 1, 1, 1], [2, 1, 1, 1], [1, 1, 1, 2], [2, 2, 1, 1], [1, 2, 1, 2]]
    for L in L3:
        for rev in (False, True):
            for uk in (False, True):
                add("h_merge", T, S=len(L), N=max(L), L=L, rev=rev, usekey=uk)
    for form in (2, 3):
        add("h_tool", T, tool="islice", S=1, N=4, spec=True, form=form, fl="acls")
    add("h_tool", T, tool="zip", S=2, N=2, fl="acls")
    add("h_tool", T, tool="compress", S=2, N=2, fl="adual")
    add("h_tool", T, tool="chain", S=2, N=2, fl="bare")
    add("h_tool", T, tool="zip_longest", S=2, N=2, fl="bare")
    add("h_tool", T, tool="zip", S=2, N=2, fl="bare")
    add("h_tool", T, tool="compress_shared", S=1, N=4)
    add("h_tool", T, tool="zip_shared", S=1, N=4)
    for t in ("map", "filter", "takewhile", "dropwhile", "filterfalse", "accumulate_f", "starmap", "iter_sentinel"):
        add("h_tool", T, tool=t, S=1, N=3, ffl="defaw")
    add("h_merge", T, S=2, N=2, ffl="defaw", usekey=True)
    # falsy / value-comparing callable objects; callables that raise for some items over sources whose aclose() returns something truthy
    for t in ("map", "filter", "takewhile", "dropwhile", "filterfalse", "accumulate_f", "starmap", "iter_sentinel"):
        add("h_tool", T, tool=t, S=1, N=3, ffl="fobj")
        add("h_tool", T, tool=t, S=1, N=2, ffl="dcobj")
        add("h_tool", T, tool=t, S=1, N=2, fl="acls", aclose_ret=True, raising=True)
    add("h_merge", T, S=2, N=2, ffl="fobj", usekey=True)
    add("h_tool", T, tool="zip_longest_shared", S=1, N=4)
    add("h_tool", T, tool="zip_longest_shared3", S=1, N=5)
    add("h_accumulate_add", T, N=5, fl="agen")
    add("h_accumulate_add", T, N=3, fl="agen", kind="list")
    for t, S_ in (("zip", 2), ("zip_longest", 2), ("chain", 2), ("islice", 1), ("batched", 1), ("pairwise", 1), ("enumerate0", 1), ("cycle", 1), ("compress", 2), ("filter_none", 1), ("filterfalse_none", 1), ("iter_sentinel", 1)):
        kw = {"spec": True, "form": 2} if t in ("islice", "batched") else {}
        add("h_tool", T, tool=t, S=S_, N=(2 if S_ == 2 else 3), pool=True, **kw)
    add("h_accumulate_add", T, N=5, fl="list")
    add("h_tee", T, C=2, N=3, M=(6 if q else 8))
    add("h_tee", T, C=3, N=(2 if q else 3), M=(5 if q else 6))
    add("h_tee", T, C=2, N=3, M=6, none_item=1)
    add("h_tee", T, C=2, N=3, M=6, none_item=0, fl="acls")
    return J


BOUNDS = {
    "quick": "sources S<=3 (merge S<=3), items per source N<=3..5 (per tool, see jobs), keys/ints unbounded; main jobs with async-generator sources and def callables; extra jobs (N<=2..4): class-based / aclose-less / dual-protocol sources, one iterator in several positions (zip, zip_longest x2/x3, compress), callables returning ready awaitables, falsy and value-comparing (unhashable) callable objects, callables raising for solver-chosen items over sources whose aclose() returns a truthy value, plain None/falsy items, None as a tee item; the predicate differs from the items' own truth value",
    "thorough": "S<=4, N<=4..7, keys/ints unbounded",
}
OUTSIDE = [
    "lengths / numbers of sources above the bound",
    "negative islice arguments, accumulate(initial=None)",
    "items with inconsistent or partial comparisons (NaN, sets)",
    "None / falsy plain items are covered for the tools that do not call a predicate or compare items (pool jobs)",
    "default accumulate (operator.add) over non-int items (ints: running sums proved equal for all integer values)",
]

MANIFEST = {
    "text": 'Differential bounded symbolic execution: each tool runs next to its stdlib namesake on the same item objects; item keys, islice/batched/enumerate integers and flags are unconstrained solver variables, so every order-type (incl. ties between distinguishable items) and every parameter region is a decided path; identity of yielded objects and type of ending compared. Exhaustive within S<=3..4 sources and N<=3..7 items. Nothing is claimed outside the bounds listed in the evidence file.',
    "note": 'Trusted: CrossHair 0.0.110 (with short-circuiting off and a refined callable() model), z3 5.1.0, the harness oracles. Oracles: real builtins/itertools/heapq in the same path; Python ports of islice/batched/enumerate only where the C function would realize symbolic ints (validated against the real functions on a concrete grid at every run).',
}
