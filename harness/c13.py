"""C13 — contextmanager equals contextlib.asynccontextmanager for every generator and body outcome."""
import contextlib

import asyncstdlib as A

from .world import P, World, Driver, fail, finish, Suspended, reset_run

PROPERTY = "C13"


class PreErr(Exception):
    pass


class NewErr(Exception):
    pass


class AfterErr(Exception):
    pass


class BlockErr(Exception):
    pass


class BlockBase(BaseException):
    pass


class FalsyErr(Exception):
    """An exception object that is falsy (an empty collection-like error)."""

    def __len__(self):
        return 0


class EqErr(Exception):
    """An exception class with value equality: every instance equals every other."""

    def __eq__(self, other):
        return type(other) is type(self)

    __hash__ = Exception.__hash__


class OurKeyboardInterrupt(KeyboardInterrupt):
    """KeyboardInterrupt for the purposes of the library (a subclass, so that the harness
    can tell it from a real interrupt of the checker)."""

    ours = True


VALUE = ("value",)
OTHER = ("other",)
OUTCOMES = ("normal", "Exception", "BaseException", "StopIteration", "StopAsyncIteration", "RuntimeError", "GeneratorExit", "KeyboardInterrupt", "exactly-Exception", "exactly-BaseException", "falsy-Exception", "value-equal-Exception")
HANDLERS = ("none", "finally", "swallow", "reraise", "raise-new", "raise-new-from-none", "raise-same-type", "return", "yield-again", "raise-StopAsyncIteration", "raise-new-RuntimeError", "raise-new-RuntimeError-from-none", "finally-raising-RuntimeError")


def make_gen(pre, handler, cont, log, E, made=None):
    made = [] if made is None else made

    def mk(exc):
        made.append(exc)  # every exception object the generator itself creates
        return exc

    async def gen():
        log.append("start")
        if pre == 0:
            raise mk(PreErr("before yield"))
        if pre == 1:
            return
        if pre == 3:
            raise mk(RuntimeError("runtime error before yield"))
        if handler == 0:
            yield VALUE
            log.append("resumed")
        elif handler == 1:
            try:
                yield VALUE
                log.append("resumed")
            finally:
                log.append("finally")
        else:
            try:
                yield VALUE
                log.append("resumed")
            except BaseException as e:
                log.append(("caught", type(e).__name__, e is E))
                if handler == 2:
                    pass
                elif handler == 3:
                    raise
                elif handler == 4:
                    raise mk(NewErr("new"))
                elif handler == 5:
                    raise mk(NewErr("new")) from None
                elif handler == 6:
                    raise mk(type(e)("same type"))
                elif handler == 7:
                    return
                elif handler == 8:
                    yield OTHER
                    log.append("resumed-after-second-yield")
                elif handler == 9:
                    raise mk(StopAsyncIteration("from handler"))
                elif handler == 10:
                    raise mk(RuntimeError("new runtime error"))
                elif handler == 11:
                    raise mk(RuntimeError("new runtime error")) from None
                else:
                    raise mk(RuntimeError("new runtime error"))
        if cont == 1:
            yield OTHER
            log.append("resumed-after-extra-yield")
        elif cont == 2:
            raise mk(AfterErr("afterwards"))
        elif cont == 3:
            raise mk(StopAsyncIteration("raised by the generator after it was resumed"))
        log.append("end")

    return gen


def make_exc(outcome):
    if outcome == 0:
        return None
    if outcome == 1:
        return BlockErr("block")
    if outcome == 2:
        return BlockBase("block")
    if outcome == 3:
        return StopIteration("block")
    if outcome == 4:
        return StopAsyncIteration("block")
    if outcome == 5:
        return RuntimeError("block")
    if outcome == 6:
        return GeneratorExit("block")
    if outcome == 7:
        return OurKeyboardInterrupt("block")
    if outcome == 8:
        return Exception("block")
    if outcome == 10:
        return FalsyErr("block")
    if outcome == 11:
        return EqErr("block")
    e = BaseException("block")
    return e


def run_one(wrap, pre, handler, cont, outcome, D):
    log = []
    E = make_exc(outcome)
    made = []
    gen = make_gen(pre, handler, cont, log, E, made)
    factory = wrap(gen)
    res = {"made": made}

    async def prog():
        try:
            async with factory() as v:
                res["entered"] = v
                log.append("body")
                if E is not None:
                    raise E
            return ("ok", None)
        except BaseException as e:  # noqa: captured before any coroutine-boundary conversion
            if type(e).__module__.startswith(("crosshair", "z3")):
                raise
            return ("exc", e)

    r = D.call(prog())
    if r[0] == "exc":
        return None, log, res, E
    return r[1], log, res, E


def classify(out, E, made=()):
    if out[0] == "ok":
        return ("suppressed-or-normal",)
    e = out[1]
    if E is not None and e is E:
        return ("same-object",)
    for i, m in enumerate(made):
        if e is m:
            return ("generator-object", i, type(e).__name__)  # the very object the generator raised
    return ("type", type(e).__name__)


def _pre(pre, handler, cont, outcome):
    ok = 0 <= pre <= 3 and 0 <= handler <= 12 and 0 <= cont <= 3 and 0 <= outcome <= 11
    if P("outcome") is not None:
        ok = ok and outcome == P("outcome")
    if P("pre") is not None:
        ok = ok and pre == P("pre")
    return ok


def h_cm(pre: int, handler: int, cont: int, outcome: int):
    """
    pre: _pre(pre, handler, cont, outcome)
    post: _[0]
    post: not _[1]
    """
    reset_run()
    W = World("a")
    D = Driver(W, sync_only=True)
    ok = True
    try:
        oa, la, ra, Ea = run_one(A.contextmanager, pre, handler, cont, outcome, D)
        os_, ls, rs, Es = run_one(contextlib.asynccontextmanager, pre, handler, cont, outcome, D)
    except Suspended:
        return finish(fail("contextmanager:suspended-with-nonsuspending-arguments"), False)
    if oa is None or os_ is None:
        return finish(fail("contextmanager:harness-program-escaped"), False)
    ca, cs = classify(oa, Ea, ra["made"]), classify(os_, Es, rs["made"])
    tag = "contextmanager"
    if ra.get("entered", "-") is not rs.get("entered", "-"):
        ok = fail("%s:entered-value-differs" % tag, (ra, rs)) and ok
    if outcome == 6 and "body" in ls:
        # deliberate difference: a GeneratorExit leaving the block always propagates as that
        # same object where the stdlib propagates it, suppresses it or raises another
        # GeneratorExit; the generator is closed rather than thrown into
        if cs[0] in ("same-object", "suppressed-or-normal") or (cs[0] in ("type", "generator-object") and cs[-1] == "GeneratorExit"):
            if ca != ("same-object",):
                ok = fail("%s:GeneratorExit-not-propagated-unchanged" % tag, (ca, cs, la)) and ok
        elif ca != cs:
            ok = fail("%s:outcome-differs(GeneratorExit)" % tag, (ca, cs, la, ls)) and ok
        # the generator is resumed/closed exactly once
        na = sum(1 for e in la if type(e) is tuple and e[0] == "caught")
        ns = sum(1 for e in ls if type(e) is tuple and e[0] == "caught")
        if na != ns:
            ok = fail("%s:generator-not-closed-exactly-once" % tag, (la, ls)) and ok
    else:
        if ca != cs:
            ok = fail("%s:outcome-differs" % tag, (ca, cs, la, ls)) and ok
        if la != ls:
            ok = fail("%s:generator-events-differ" % tag, (la, ls)) and ok
    for v in W.viol:
        ok = fail("%s:%s" % (tag, v)) and ok
    return finish(ok, ("body" in ls and outcome != 0) or pre != 2 or outcome == 0, ("cm", pre, HANDLERS[handler], cont, OUTCOMES[outcome], cs[0]) if pre == 2 else ("cm", pre, "generator-never-yields: handler/continuation irrelevant", cs[0]))


GRID = {"h_cm": lambda: [(p, h, c, o) for p in range(4) for h in range(13) for c in range(4) for o in range(12) if P("outcome") in (None, o) and P("pre") in (None, p)]}


def jobs(tier):
    J = []
    for o in range(12):
        J.append({"module": "c13", "fn": "h_cm", "part": {"outcome": o, "pre": 2}, "timeout": 400 if tier == "quick" else 900, "preflight_budget": 60})
    for p in (0, 1, 3):
        J.append({"module": "c13", "fn": "h_cm", "part": {"pre": p}, "timeout": 400 if tier == "quick" else 900, "preflight_budget": 60})
    return J


LEVEL = "other"
BOUNDS = {"quick": "all 936 generator programs x block outcomes of the property's grammar (4 x 13 x 4 x 12: block exceptions that are falsy or compare equal to a fresh instance added; a RuntimeError raised before the yield and a StopAsyncIteration raised after resumption added; the grammar's eight block outcomes plus exactly-Exception and exactly-BaseException; the grammar's ten handlers plus three that raise a new RuntimeError), each selected by four symbolic ints; also executed natively on the full grid", "thorough": "same (the space is finite and exhausted)"}
OUTSIDE = ["generators with more than one try block or nested context managers", "__context__/__cause__ chains of the propagated exception", "KeyboardInterrupt is represented by a subclass"]
NONTRIVIAL_RULE = "the block was entered and ended with an exception on the path"

MANIFEST = {
    "text": "All generator programs of the property's grammar (plus three RuntimeError handlers and two exact-base-class outcomes) crossed with block outcomes, each selected by symbolic ints, run under asyncstdlib.contextmanager and contextlib.asynccontextmanager; entered value, generator event log and outcome compared; GeneratorExit rule as stated. Nothing is claimed outside the bounds listed in the evidence file.",
    "note": 'Trusted: CrossHair 0.0.110 (with short-circuiting off and a refined callable() model), z3 5.1.0, the harness oracles. The space is finite and exhausted in both tiers.',
}
