"""Tool applications over one shared iterator (used by C07 borrow and C08 scoped_iter):
each entry builds the asyncstdlib tool over a given async iterator and the stdlib tool
over a shared sync iterator."""
import itertools
import heapq

import asyncstdlib as A

from .world import Term


def _pred(x):
    return x.key > 0


def _t(name):
    return lambda *xs: Term(name, xs)


_INIT = Term("init", ())
from .world import Item as _Item  # noqa: E402

_OTHER = [_Item(0, "other0"), _Item(1, "other1")]

APPS = {
    "islice2": (lambda it: A.islice(it, 2), lambda it: itertools.islice(it, 2)),
    "islice13": (lambda it: A.islice(it, 1, 3), lambda it: itertools.islice(it, 1, 3)),
    "islice022": (lambda it: A.islice(it, 0, 2, 2), lambda it: itertools.islice(it, 0, 2, 2)),
    "takewhile": (lambda it: A.takewhile(_pred, it), lambda it: itertools.takewhile(_pred, it)),
    "dropwhile": (lambda it: A.dropwhile(_pred, it), lambda it: itertools.dropwhile(_pred, it)),
    "zip_first": (lambda it: A.zip(it, [1, 2]), lambda it: zip(it, [1, 2])),
    "zip_second": (lambda it: A.zip([1, 2], it), lambda it: zip([1, 2], it)),
    "batched2": (lambda it: A.batched(it, 2), lambda it: itertools.batched(it, 2)),
    "pairwise": (lambda it: A.pairwise(it), lambda it: itertools.pairwise(it)),
    "enumerate": (lambda it: A.enumerate(it), lambda it: enumerate(it)),
    "map": (lambda it: A.map(_t("m"), it), lambda it: map(_t("m"), it)),
    "filter": (lambda it: A.filter(_pred, it), lambda it: filter(_pred, it)),
    "filterfalse": (lambda it: A.filterfalse(_pred, it), lambda it: itertools.filterfalse(_pred, it)),
    "chain": (lambda it: A.chain(it), lambda it: itertools.chain(it)),
    "chain2": (lambda it: A.chain([1], it), lambda it: itertools.chain([1], it)),
    "compress": (lambda it: A.compress(it, [1, 0]), lambda it: itertools.compress(it, [1, 0])),
    "compress_sel": (lambda it: A.compress([1, 2, 3, 4], it), lambda it: itertools.compress([1, 2, 3, 4], it)),
    "accumulate": (lambda it: A.accumulate(it, _t("a"), initial=_INIT), lambda it: itertools.accumulate(it, _t("a"), initial=_INIT)),
    "zip_longest": (lambda it: A.zip_longest(it, [1]), lambda it: itertools.zip_longest(it, [1])),
    "zip_longest_same": (lambda it: A.zip_longest(it, it), lambda it: itertools.zip_longest(it, it)),
    "zip_strict3": (lambda it: A.zip([], [1, 2], it, strict=True), lambda it: zip([], [1, 2], it, strict=True)),
    "merge1": (lambda it: A.merge(it), lambda it: heapq.merge(it)),
    "merge2": (lambda it: A.merge(it, _OTHER), lambda it: heapq.merge(it, _OTHER)),
    "cycle": (lambda it: A.cycle(it), lambda it: itertools.cycle(it)),
    "starmap": (lambda it: A.starmap(_t("s"), A.zip(it)), lambda it: itertools.starmap(_t("s"), zip(it))),
    "iter": (lambda it: A.iter(it), lambda it: iter(it)),
    "borrow": (lambda it: A.borrow(it), lambda it: iter(it)),
    "any_iter": (lambda it: A.any_iter(it), lambda it: iter(it)),
}
APP_NAMES = sorted(APPS)

# aggregations applied to the shared iterator (consume to the end)
AGG_APPS = {
    "list": (lambda it: A.list(it), lambda it: list(it)),
    "all": (lambda it: A.all(it), lambda it: all(it)),
    "any": (lambda it: A.any(it), lambda it: any(it)),
    "min": (lambda it: A.min(it, default=None), lambda it: min(it, default=None)),
    "reduce": (lambda it: A.reduce(_t("r"), it, None), lambda it: __import__("functools").reduce(_t("r"), it, None)),
    "nlargest": (lambda it: A.nlargest(it, 1), lambda it: heapq.nlargest(1, it)),
}
AGG_NAMES = sorted(AGG_APPS)
