"""C06 — errors from sources/callables surface unchanged where the stdlib would raise."""
from .world import P, World, Driver, fail, finish, Suspended, reset_run, make_fault, same_seq
from .tools import Opts
from .gen import op_of, pre_gen, fix_flags, mkdata, run_async, run_sync, endings_match, endkind, logs_equal, n_items

PROPERTY = "C06"
LEVEL = "fault_enumeration"


def h_fault(k0: int, k1: int, k2: int, k3: int, k4: int, k5: int, k6: int, k7: int, n0: int, n1: int, n2: int, p0: int, p1: int, p2: int, b0: bool, b1: bool, b2: bool, x: int, y: int, z: int):
    """
    pre: pre_gen(n0, n1, n2, p0, p1, p2, x, y, z)
    pre: fix_flags(b0, b1, b2)
    post: _[0]
    post: not _[1]
    """
    reset_run()
    op, kind = op_of(P("op"))
    d = mkdata([k0, k1, k2, k3, k4, k5, k6, k7], [n0, n1, n2, 0], [p0, p1, p2], [b0, b1, b2])
    o = Opts(fl=(P("fls") or [P("fl", "agen")] * 4), ffl=P("ffl", "def"))
    fault = make_fault(y)
    fkind = None
    if P("Z", (0, 0))[1] > 0:
        # the k-th use *of one entity* (source pulls / end-of-source check / the callable)
        for i, nm in enumerate((None, "pull", "end", "call")):
            if z == i:
                fkind = nm
    Wa, Ws = World("a", fault_at=x, fault=fault, fault_kind=fkind), World("s", fault_at=x, fault=fault, fault_kind=fkind)
    Wa.aclose_ret = P("aclose_ret")
    Wa.repoll_events = Ws.repoll_events = P("repoll", False)
    D = Driver(Wa, sync_only=True)
    try:
        out_a, end_a, _h = run_async(op, kind, Wa, D, d, o)
    except Suspended:
        return finish(fail("%s:suspended-with-nonsuspending-arguments" % op.name), False)
    out_s, end_s = run_sync(op, kind, Ws, d, o)
    ok = True
    name = op.name
    lazy = kind == "tool" or name in ("all", "any")
    if not lazy:
        # aggregations that consume everything: the order of uses is not part of the
        # claim (C05 covers iterator tools and all/any only), so the k-th use may be a
        # different one on the two sides. What must hold: a delivered fault surfaces as
        # that very object, nothing is used afterwards, and without a fault results agree.
        if Wa.faulted and end_a is not fault:
            ok = fail("%s:fault-not-surfaced-unchanged" % name, (end_a, fault)) and ok
        if fkind is not None and Ws.faulted and end_s is fault and not Wa.faulted:
            # the stdlib used that entity a k-th time and failed there; asyncstdlib did not
            ok = fail("%s:kth-use-of-%s-never-happened" % (name, fkind), (Wa.log, Ws.log)) and ok
        if fkind is not None and Wa.faulted and not Ws.faulted:
            ok = fail("%s:extra-use-of-%s" % (name, fkind), (Wa.log, Ws.log)) and ok
        if not Wa.faulted and not Ws.faulted and not endings_match(end_a, end_s):
            ok = fail("%s:ending-differs" % name, (end_a, end_s)) and ok
        for v in Wa.viol:
            ok = fail("%s:%s" % (name, v)) and ok
        return finish(ok, Wa.faulted, (name, tuple(len(s) for s in d.srcs), Wa.uses if Wa.faulted else -1, endkind(end_a)))
    if Ws.faulted:
        if end_s is not fault:
            # the stdlib itself does not surface this fault unchanged here: nothing to compare
            return finish(True, False, (name, "oracle-transforms-fault"))
        if end_a is not fault:
            ok = fail("%s:fault-not-surfaced-unchanged" % name, (end_a, fault)) and ok
    if not same_seq(out_a, out_s):
        ok = fail("%s:items-before-failure-differ" % name, (out_a, out_s)) and ok
    if not endings_match(end_a, end_s, fault):
        ok = fail("%s:ending-differs" % name, (end_a, end_s)) and ok
    if not logs_equal(Wa.log, Ws.log):
        ok = fail("%s:uses-differ" % name, (Wa.log, Ws.log)) and ok
    for v in Wa.viol:
        ok = fail("%s:%s" % (name, v)) and ok
    return finish(ok, Ws.faulted, (name, tuple(len(s) for s in d.srcs), len(out_s), Ws.uses if Ws.faulted else -1, endkind(end_s)))


# ---- groupby: faults in the source or the key function under a pattern of operations ------------
def _pre_gb(n, o0, o1, o2, o3, x, y):
    ok = 0 <= n <= P("N", 3) and 1 <= x <= 2 * P("N", 3) + 2 and 0 <= y <= 2
    for o in (o0, o1, o2, o3):
        ok = ok and 0 <= o <= 1
    return ok


def h_fault_groupby(n: int, k0: int, k1: int, k2: int, o0: int, o1: int, o2: int, o3: int, x: int, y: int):
    """
    pre: _pre_gb(n, o0, o1, o2, o3, x, y)
    post: _[0]
    post: not _[1]
    """
    import itertools

    import asyncstdlib as A

    from .world import Item, take_sync
    from .tools import KeyOf

    reset_run()
    keys = [k0, k1, k2]
    items = []
    for i in range(n):
        items.append(Item(keys[i], "0.%d" % i))
    fault = make_fault(y)
    Wa, Ws = World("a", fault_at=x, fault=fault), World("s", fault_at=x, fault=fault)
    D = Driver(Wa, sync_only=True)
    kcache = {}

    def keyf(it):
        if id(it) not in kcache:
            kcache[id(it)] = KeyOf(it)
        return kcache[id(it)]

    keymode = P("key", "def")
    src_a = Wa.source(items, P("fl", "agen"))
    src_s = Ws.source(items, "iter")
    if keymode == "none":
        ga, gs = A.groupby(src_a), itertools.groupby(src_s)
    else:
        ga = A.groupby(src_a, key=Wa.fn("key", keyf, keymode))
        gs = itertools.groupby(src_s, Ws.fn("key", keyf))
    grp_a = grp_s = None
    ok = True
    trace = []
    for o in (o0, o1, o2, o3):
        if o == 0 or grp_s is None:
            trace.append("G")
            ra, ea = D.take(ga, 1)
            rs, es = take_sync(gs, 1)
            if ra and rs:
                grp_a, grp_s = ra[0][1], rs[0][1]
                if ra[0][0] is not rs[0][0]:
                    ok = fail("groupby:key-object-differs", trace) and ok
        else:
            trace.append("g")
            ra, ea = D.take(grp_a, 1)
            rs, es = take_sync(grp_s, 1)
            if len(ra) != len(rs) or (ra and ra[0] is not rs[0]):
                ok = fail("groupby:group-item-differs", (trace, ra, rs)) and ok
        if len(ra) != len(rs):
            ok = fail("groupby:items-before-failure-differ", (trace, ra, rs)) and ok
        if es is fault or ea is fault:
            if ea is not es:
                ok = fail("groupby:fault-not-surfaced-unchanged", (trace, ea, es)) and ok
            break
        if (ea == "stop") != (es == "stop") or (ea is not None and ea != "stop") or (es is not None and es != "stop"):
            ok = fail("groupby:ending-differs", (trace, ea, es)) and ok
            break
    if not logs_equal(Wa.log, Ws.log):
        ok = fail("groupby:uses-differ", (trace, Wa.log, Ws.log)) and ok
    for v in Wa.viol:
        ok = fail("groupby:%s" % v) and ok
    return finish(ok, Ws.faulted, ("groupby-fault", len(items), tuple(trace), Ws.uses if Ws.faulted else -1))


def _grid():
    import random

    rnd = random.Random(13)
    N, S = P("N", 2), P("S", 1)
    X, Y, Z = P("X", (0, 0)), P("Y", (0, 0)), P("Z", (0, 0))
    out = []
    for _ in range(150):
        ns = [rnd.randint(0, N) if i < S else 0 for i in range(3)]
        b = [P("b%d" % i) if P("b%d" % i) is not None else rnd.random() < 0.5 for i in range(3)]
        p0 = rnd.randint(0, N + 1)
        if P("op") in ("nlargest", "nsmallest", "enumerate"):
            p0 = rnd.randint(-1, 1)
        out.append(tuple([rnd.choice([-1, 0, 1, 1, 2]) for _ in range(8)] + ns + [p0, rnd.randint(0, N + 2), rnd.randint(1, 3)] + b + [rnd.randint(X[0], X[1]), rnd.randint(Y[0], Y[1]), rnd.randint(Z[0], Z[1])]))
    return out


GRID = {"h_fault": _grid, "h_fault_groupby": lambda: [(n, 1, 1, 2, a, b, c, 0, x, y) for n in range(4) for a in (0, 1) for b in (0, 1) for c in (0, 1) for x in range(1, 8) for y in range(3)]}

TOOLS1 = ["filter", "filter_none", "filterfalse", "takewhile", "dropwhile", "pairwise", "cycle", "accumulate_f", "accumulate_f_init", "iter_sentinel", "enumerate", "batched", "starmap", "islice"]
AGGS1 = ["all", "any", "min", "max", "sorted", "nlargest", "nsmallest", "reduce", "list", "tuple"]


def jobs(tier):
    q = tier == "quick"
    T = 300 if q else 900
    J = []
    NF = 7

    def add(op, S, N, uses, **kw):
        # all 7 exception kinds with one item per source; the three kinds the library could
        # treat specially (Exception, AttributeError, BaseException subclass) at full length
        ysplit = kw.pop("ysplit", False)
        yonly = kw.pop("yonly", None)
        if yonly is not None:
            part = {"op": op, "S": S, "N": N, "X": (1, min(uses, 2 * N * S + S + 1)), "Y": yonly}
            part.update(kw)
            J.append({"module": "c06", "fn": "h_fault", "part": part, "timeout": T})
            return
        for n, yr in (((1, (0, 3)), (1, (4, NF - 1))) if ysplit else ((1, (0, NF - 1)),)) + ((N, (0, 2) if q else (0, NF - 1)),):
            if q and n > 1 and kw.get("fl") == "iter":
                continue
            part = {"op": op, "S": S, "N": n, "X": (1, min(uses, 2 * n * S + S + 1)), "Y": yr}
            part.update(kw)
            J.append({"module": "c06", "fn": "h_fault", "part": part, "timeout": T})

    flavs = [("agen", "def"), ("acls", "adef"), ("iter", "def")] if q else [("agen", "def"), ("acls", "adef"), ("iter", "obj"), ("seq", "partial")]
    N1 = 2 if q else 3
    for fl, ffl in flavs:
        for op in TOOLS1:
            kw = {"form": 2, "PR": 2, "b0": False, "b1": False} if op == "islice" else {}
            add(op, 1, N1, 2 * N1 + 2, fl=fl, ffl=ffl, **kw)
        for op in AGGS1:
            if op == "sorted" and fl == "seq":
                continue  # CrossHair's sorted() model rejects __getitem__-only sequences (engine limitation)
            add(op, 1, N1, 2 * N1 + 2, fl=fl, ffl=ffl)
            if op not in ("all", "any"):
                add(op, 1, N1, N1 + 1, fl=fl, ffl=ffl, Z=(1, 3))
        for op in ("zip", "zip_longest", "map", "chain", "chain_from"):
            add(op, 2, 2, 8, fl=fl, ffl=ffl)
        for b0 in (False, True):
            for b1 in (False, True):
                add("merge", 2, 2, 8, fl=fl, ffl=ffl, b0=b0, b1=b1)
        add("compress", 2, 2, 6, fl=fl, ffl=ffl)
    add("islice", 1, 2, 5, fl="agen", ffl="def", form=3, PR=2, p2=2, b0=False, b1=False, b2=False, ysplit=True)
    add("islice", 1, 2, 5, fl="acls", ffl="def", form=3, PR=2, p2=2, b0=False, b1=False, b2=False, ysplit=True)
    for b0 in (False, True):
        add("merge", 1, 2, 6, fl="agen", ffl="def", b0=b0, b1=True)
        add("merge", 1, 2, 6, fl="acls", ffl="defaw", b0=b0, b1=True)
    # a sync container next to a failing async source (an empty list is falsy)
    for op in ("zip", "map", "zip_longest", "chain", "compress"):
        for fls in (["acls", "list"], ["list", "agen"]):
            add(op, 2, 1, 5, fls=fls + fls, ffl="defaw")
    # a source whose aclose() returns something truthy must not make the tool swallow the fault
    for op in ("filter", "enumerate", "accumulate_f", "takewhile", "starmap", "list", "sum" if False else "max", "sorted", "reduce"):
        add(op, 1, N1, 2 * N1 + 2, fl="acls", ffl="def", aclose_ret=True)
    # a callable of an awaitable aggregation raising StopAsyncIteration (fault kind 7): inside a
    # coroutine nothing converts it, so it must surface unchanged like any other exception
    for op in ("reduce", "min", "max", "sorted", "nlargest", "nsmallest", "all", "any"):
        if op in ("all", "any"):
            continue  # no callable
        add(op, 1, 2, 4, fl="agen", ffl="def", Z=(3, 3), yonly=(7, 7))
        add(op, 1, 2, 4, fl="acls", ffl="adef", Z=(3, 3), yonly=(7, 7))
    # asking an exhausted class-based source again counts as a use (and may fail) in these jobs:
    # aggregations must make the same end-of-source checks as their counterparts
    for op in ("nlargest", "nsmallest", "min", "max", "reduce", "sorted", "list", "tuple", "all", "any"):
        add(op, 1, 2, 4, fl="acls", ffl="def", Z=(2, 2), repoll=True, yonly=(0, 2))
    for key in ("none", "def", "adef"):
        for fl in ("agen", "acls"):
            J.append({"module": "c06", "fn": "h_fault_groupby", "part": {"N": (2 if q else 3), "key": key, "fl": fl}, "timeout": T})
    if not q:
        for op in ("zip", "zip_longest", "map", "chain"):
            add(op, 3, 2, 12, fl="agen", ffl="adef")
        for b0 in (False, True):
            for yr in ((0, 1), (2, 3), (4, 6)):  # split by exception kind
                add("merge", 3, 2, 12, fl="agen", ffl="adef", b0=b0, b1=False, yonly=yr)
            add("merge", 3, 1, 9, fl="agen", ffl="adef", b0=b0, b1=True)
        for step in (1, 2, 3):
            add("islice", 1, 1, 4, fl="agen", ffl="def", form=3, PR=3, p2=step, b0=False, b1=False, b2=False, yonly=(0, 3))
            add("islice", 1, 1, 4, fl="agen", ffl="def", form=3, PR=3, p2=step, b0=False, b1=False, b2=False, yonly=(4, 6))
            for start in range(4):  # three items: also pinned by start and split by exception kind
                for yr in ((0, 2), (3, 6)):
                    add("islice", 1, 3, 8, fl="agen", ffl="def", form=3, PR=3, p0=start, p2=step, b0=False, b1=False, b2=False, yonly=yr)
    return J


BOUNDS = {
    "quick": "(groupby: fault in source or key under every 4-operation pattern of advancing groupby / current group, N<=2, three exception kinds incl. AttributeError) (consuming aggregations additionally: the k-th use of one entity - source pulls, end-of-source check, callable - fails) one fault at symbolic position k=1..2N+2 over the merged use sequence (pulls, end-of-source checks, callable invocations); 7 exception kinds (Exception subclass, AttributeError, BaseException subclass, TypeError, ValueError, KeyError, RuntimeError) with N<=1 item per source, the first three kinds with N<=2; S<=2; flavours (async generator, def) / (class-based async iterator, async def) / (sync iterator, def); callables of awaitable aggregations raising StopAsyncIteration; aggregations over class-based sources where asking the exhausted source again is a use that may fail",
    "thorough": "N<=3, S<=3, additionally __getitem__ sequences, partial(async def) and callable objects",
}
OUTSIDE = ["faults of type StopIteration/StopAsyncIteration (generator semantics turn them into RuntimeError in both worlds differently)", "more than one fault", "lengths above the bound"]
NONTRIVIAL_RULE = "the injected fault was actually delivered on the path"

MANIFEST = {
    "text": 'Fault enumeration: one fault object (7 kinds) at a symbolic position of the merged use sequence (for consuming aggregations also at the k-th use of one entity) in both worlds; items before the failure, identity of the exception reaching the consumer and absence of any later use are compared; groupby under operation patterns included. Nothing is claimed outside the bounds listed in the evidence file.',
    "note": 'Trusted: CrossHair 0.0.110 (with short-circuiting off and a refined callable() model), z3 5.1.0, the harness oracles. For consuming aggregations the order of uses is not compared (not claimed by the property).',
}
