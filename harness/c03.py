"""C03 — async neutrality: sync and async arguments are interchangeable."""
import asyncstdlib as A

from .world import ODD_FN_FLAVOURS, P, World, Driver, Item, fail, finish, Suspended, reset_run, same_seq, ITER_FLAVOURS, FN_FLAVOURS, call_sync, Lock
from .tools import Opts
from .gen import op_of, pre_gen, fix_flags, mkdata, run_async, run_sync, endings_match, endkind, n_items, pick, start_async

PROPERTY = "C03"


def h_flavour(k0: int, k1: int, k2: int, k3: int, k4: int, k5: int, k6: int, k7: int, n0: int, n1: int, n2: int, p0: int, p1: int, p2: int, b0: bool, b1: bool, b2: bool, x: int, y: int, z: int):
    """
    pre: pre_gen(n0, n1, n2, p0, p1, p2, x, y, z)
    pre: fix_flags(b0, b1, b2)
    post: _[0]
    post: not _[1]
    """
    reset_run()
    op, kind = op_of(P("op"))
    name = op.name
    d = mkdata([k0, k1, k2, k3, k4, k5, k6, k7], [n0, n1, n2, 0], [p0, p1, p2], [b0, b1, b2])
    f0, f1, ff = pick(ITER_FLAVOURS, x), pick(ITER_FLAVOURS, y), pick(ODD_FN_FLAVOURS if P("odd_fn", False) else FN_FLAVOURS, z)
    o = Opts(fl=[f0, f1, f0, f1], ffl=ff)
    if P("skip_seq", False) and f0 == "seq":
        # engine limitation: CrossHair's model of builtin sorted() calls ls.__iter__() and so
        # rejects __getitem__-only sequences, which asyncstdlib.sorted hands to it unchanged
        return finish(True, False, (name, "seq-skipped"))
    Wa, Ws = World("a"), World("s")
    D = Driver(Wa, sync_only=True)
    ok = True
    try:
        # the object handed back before awaiting / iterating is never a plain value
        st = start_async(op, kind, Wa, d, o)
        if st[0] != "exc":
            obj = st[1]
            if kind == "tool" and not (hasattr(obj, "__anext__") and hasattr(obj, "__aiter__")):
                ok = fail("%s:returns-no-async-iterator" % name, type(obj).__name__) and ok
            if kind == "agg" and not hasattr(obj, "__await__"):
                ok = fail("%s:returns-no-awaitable" % name, type(obj).__name__) and ok
            if kind == "agg" and hasattr(obj, "close"):
                obj.close()
        Wa = World("a")
        D = Driver(Wa, sync_only=True)
        out_a, end_a, _h = run_async(op, kind, Wa, D, d, o)
    except Suspended:
        return finish(fail("%s:suspended-with-nonsuspending-arguments" % name), False)
    out_s, end_s = run_sync(op, kind, Ws, d, o)
    if not same_seq(out_a, out_s):
        ok = fail("%s:items-differ-under-flavour" % name, (f0, f1, ff, out_a, out_s)) and ok
    if not endings_match(end_a, end_s):
        ok = fail("%s:result-differs-under-flavour" % name, (f0, f1, ff, end_a, end_s)) and ok
    for v in Wa.viol:
        ok = fail("%s:%s" % (name, v)) and ok
    return finish(ok, n_items(d) >= 1 and (f0 != "list" or ff != "def"), (name, f0, f1 if len(d.srcs) > 1 else "-", ff if getattr(op, "fn", False) else "-", tuple(len(s) for s in d.srcs), endkind(end_s)))


# ---- ExitStack: exit callbacks and callbacks under every callable flavour -----------------------
def h_exit_flavour(z: int, kind: int, beh: int, raises: bool):
    """
    pre: 0 <= z <= 4 and 0 <= kind <= 1 and 0 <= beh <= 2
    post: _[0]
    post: not _[1]
    """
    reset_run()
    ff = pick(FN_FLAVOURS, z)

    class Boom(Exception):
        pass

    def run(flavour):
        W = World("a")
        D = Driver(W, sync_only=True)
        log = []
        boom = Boom("block")

        def exit_impl(et, ev, tb):
            log.append(("exit", ev is boom))
            if beh == 1:
                return True
            if beh == 2:
                raise Boom("from-exit")
            return False

        def cb_impl(*a, **k):
            log.append(("callback", a, tuple(sorted(k))))
            if beh == 2:
                raise Boom("from-callback")
            return beh == 1

        async def prog():
            try:
                async with A.ExitStack() as stack:
                    stack.callback(log.append, "lower-callback-ran")  # registered first: runs last
                    if kind == 0:
                        stack.push(W.fn("exit", exit_impl, flavour))
                    else:
                        stack.callback(W.fn("cb", cb_impl, flavour), "arg", "arg2", kw="kw-value", other=None)
                    if raises:
                        raise boom
                return "ok"
            except Boom as e:
                return ("exc", e is boom, str(e))

        r = D.call(prog())
        return r, log

    try:
        r0, l0 = run("def")
        r1, l1 = run(ff)
    except Suspended:
        return finish(fail("ExitStack:suspended-with-nonsuspending-arguments"), False)
    ok = True
    if r0 != r1 or l0 != l1:
        ok = fail("ExitStack:exit-callback-behaves-differently-under-flavour", (ff, r0, r1, l0, l1))
    if len(l1) < 2:
        ok = fail("ExitStack:exit-callback-never-ran", (ff, r1)) and ok
    for l in (l0, l1):
        for e in l:
            if type(e) is tuple and e[0] == "callback" and (e[1] != ("arg", "arg2") or e[2] != ("kw", "other")):
                ok = fail("ExitStack:callback-arguments-not-forwarded", e) and ok
    return finish(ok, ff != "def", ("exit_flavour", ff, kind, beh, bool(raises)))


# ---- sum: the same numbers / strings under every iterable flavour ------------------------------
SUM_POOL = (1, 1.0, True, 0.1, 0.2, 0.3, -1, 2.5, "a", "b")


def h_sum_flavour(x: int, n: int, s0: int, s1: int, s2: int, ss: int):
    """
    pre: 0 <= x <= 6 and 0 <= n <= P("N", 2) and -1 <= ss < 10
    pre: P("x") is None or x == P("x")
    pre: P("s0") is None or s0 == P("s0")
    pre: 0 <= s0 < 10 and 0 <= s1 < 10 and 0 <= s2 < 10
    post: _[0]
    post: not _[1]
    """
    reset_run()
    sels = [s0, s1, s2]
    vals = []
    for j in range(n):
        vals.append(pick(SUM_POOL, sels[j]))
    args = () if ss == -1 else (pick(SUM_POOL, ss),)
    fl = pick(ITER_FLAVOURS, x)
    W0, W1 = World("a"), World("a")
    D0, D1 = Driver(W0, sync_only=True), Driver(W1, sync_only=True)
    try:
        r0 = D0.call(A.sum(W0.source(vals, "list"), *args))
        r1 = D1.call(A.sum(W1.source(vals, fl), *args))
    except Suspended:
        return finish(fail("sum:suspended-with-nonsuspending-arguments"), False)
    from .world import _no_tracing

    with _no_tracing():
        if r0[0] != r1[0]:
            same = False
        elif r0[0] == "ok":
            same = type(r0[1]) is type(r1[1]) and r0[1] == r1[1]
        else:
            same = type(r0[1]) is type(r1[1])
    ok = True
    if not same:
        ok = fail("sum:result-differs-under-flavour", (fl, vals, args, r0, r1))
    return finish(ok, len(vals) >= 2 and fl != "list", ("sum_flavour", fl, len(vals), len(args), r0[0]))


# ---- every public callable returns an awaitable / async iterator / async context manager ----
def _category(obj):
    if hasattr(obj, "__anext__") and hasattr(obj, "__aiter__"):
        return "aiter"
    if hasattr(obj, "__await__"):
        return "awaitable"
    if hasattr(obj, "__aenter__") and hasattr(obj, "__aexit__"):
        return "acm"
    return "plain:" + type(obj).__name__


def _public_calls():
    data = [3, 1, 2]
    pairs = [(1, 2), (3, 4)]

    def f1(x):
        return x

    def f2(x, y):
        return x

    def f0():
        return 1

    class SyncCM:
        def __enter__(self):
            return self

        def __exit__(self, *a):
            return False

    class Res:
        @A.cached_property
        async def value(self):
            return 1

    async def agen():
        yield 1

    async def acoro():
        return 1

    calls = {
        "anext": (lambda: A.anext(A.iter(data)), "awaitable"),
        "iter": (lambda: A.iter(data), "aiter"),
        "filter": (lambda: A.filter(f1, data), "aiter"),
        "enumerate": (lambda: A.enumerate(data), "aiter"),
        "map": (lambda: A.map(f1, data), "aiter"),
        "zip": (lambda: A.zip(data, data), "aiter"),
        "all": (lambda: A.all(data), "awaitable"),
        "any": (lambda: A.any(data), "awaitable"),
        "max": (lambda: A.max(data), "awaitable"),
        "min": (lambda: A.min(data, key=f1), "awaitable"),
        "sum": (lambda: A.sum(data), "awaitable"),
        "list": (lambda: A.list(data), "awaitable"),
        "dict": (lambda: A.dict(pairs), "awaitable"),
        "set": (lambda: A.set(data), "awaitable"),
        "tuple": (lambda: A.tuple(data), "awaitable"),
        "sorted": (lambda: A.sorted(data), "awaitable"),
        "reduce": (lambda: A.reduce(f2, data), "awaitable"),
        "lru_cache": (lambda: A.lru_cache(acoro)(), "awaitable"),
        "cache": (lambda: A.cache(acoro)(), "awaitable"),
        "cached_property": (lambda: Res().value, "awaitable"),
        "closing": (lambda: A.closing(agen()), "acm"),
        "contextmanager": (lambda: A.contextmanager(agen)(), "acm"),
        "ContextDecorator": (lambda: A.contextmanager(agen)()(acoro)(), "awaitable"),
        "nullcontext": (lambda: A.nullcontext(1), "acm"),
        "ExitStack": (lambda: A.ExitStack(), "acm"),
        "ExitStack.enter_context": (lambda: A.ExitStack().enter_context(SyncCM()), "awaitable"),
        "ExitStack.aclose": (lambda: A.ExitStack().aclose(), "awaitable"),
        "accumulate": (lambda: A.accumulate(data), "aiter"),
        "batched": (lambda: A.batched(data, 2), "aiter"),
        "cycle": (lambda: A.cycle(data), "aiter"),
        "chain": (lambda: A.chain(data, data), "aiter"),
        "chain.from_iterable": (lambda: A.chain.from_iterable([data]), "aiter"),
        "compress": (lambda: A.compress(data, data), "aiter"),
        "dropwhile": (lambda: A.dropwhile(f1, data), "aiter"),
        "filterfalse": (lambda: A.filterfalse(f1, data), "aiter"),
        "islice": (lambda: A.islice(data, 2), "aiter"),
        "takewhile": (lambda: A.takewhile(f1, data), "aiter"),
        "starmap": (lambda: A.starmap(f2, pairs), "aiter"),
        "tee": (lambda: A.tee(data)[0], "aiter"),
        "tee-handle": (lambda: A.tee(data), "acm"),
        "pairwise": (lambda: A.pairwise(data), "aiter"),
        "zip_longest": (lambda: A.zip_longest(data, data), "aiter"),
        "groupby": (lambda: A.groupby(data), "aiter"),
        "borrow": (lambda: A.borrow(A.iter(data)), "aiter"),
        "scoped_iter": (lambda: A.scoped_iter(data), "acm"),
        "scoped_iter(async)": (lambda: A.scoped_iter(agen()), "acm"),
        "await_each": (lambda: A.await_each([acoro()]), "aiter"),
        "any_iter": (lambda: A.any_iter(data), "aiter"),
        "apply": (lambda: A.apply(f1, acoro()), "awaitable"),
        "sync": (lambda: A.sync(f0)(), "awaitable"),
        "merge": (lambda: A.heapq.merge(data, data), "aiter"),
        "nlargest": (lambda: A.heapq.nlargest(data, 1), "awaitable"),
        "nsmallest": (lambda: A.heapq.nsmallest(data, 1), "awaitable"),
    }
    return calls


def h_types(sel: int):
    """
    pre: 0 <= sel < 56
    post: _[0]
    post: not _[1]
    """
    reset_run()
    import asyncstdlib.heapq  # noqa

    calls = _public_calls()
    names = sorted(calls)
    ok = True
    if sel == 55:
        # every name exported by the package is covered by the table above
        covered = set(n.split(".")[0].split("(")[0].split("-")[0] for n in names) | {"heapq"}
        for n in A.__all__:
            if n not in covered:
                ok = fail("types:public-name-not-covered:%s" % n) and ok
        return finish(ok, True, ("types", "all-covered"))
    nm = names[0]
    for i in range(len(names)):
        if sel == i:
            nm = names[i]
    if sel >= len(names):
        return finish(True, False, ("types", "unused-selector"))
    fn, want = calls[nm]
    obj = fn()
    got = _category(obj)
    if got != want:
        ok = fail("types:%s-returned-%s" % (nm, got)) and ok
    if hasattr(obj, "close") and got == "awaitable":
        try:
            obj.close()
        except Exception:
            pass
    return finish(ok, True, ("types", nm, got))


def _grid():
    import random

    rnd = random.Random(23)
    N, S = P("N", 2), P("S", 1)
    X, Y, Z = P("X", (0, 0)), P("Y", (0, 0)), P("Z", (0, 0))
    out = []
    for _ in range(150):
        ns = [rnd.randint(0, N) if i < S else 0 for i in range(3)]
        b = [P("b%d" % i) if P("b%d" % i) is not None else rnd.random() < 0.5 for i in range(3)]
        p0 = rnd.randint(0, N + 1)
        if P("op") in ("nlargest", "nsmallest", "enumerate"):
            p0 = rnd.randint(-1, 1)
        out.append(tuple([rnd.choice([-1, 0, 1, 1, 2]) for _ in range(8)] + ns + [p0, rnd.randint(0, N + 2), rnd.randint(1, 3)] + b + [rnd.randint(X[0], X[1]), rnd.randint(Y[0], Y[1]), rnd.randint(Z[0], Z[1])]))
    return out


GRID = {
    "h_flavour": _grid,
    "h_types": lambda: [(i,) for i in range(56)],
    "h_exit_flavour": lambda: [(z, k, b, r) for z in range(5) for k in (0, 1) for b in range(3) for r in (False, True)],
    "h_sum_flavour": lambda: [(x, n, a, b, 5, ss) for x in range(7) for n in (0, 2, 3) for a in (0, 3, 8) for b in (4, 9) for ss in (-1, 3, 8)],
}

TOOLS_FN = ["filter", "filterfalse", "takewhile", "dropwhile", "accumulate_f", "accumulate_f_init", "iter_sentinel", "starmap"]
TOOLS_NOFN = ["filter_none", "filterfalse_none", "pairwise", "cycle", "enumerate", "batched", "islice", "scoped_twice"]
AGGS_FN = ["min", "max", "sorted", "nlargest", "nsmallest", "reduce"]
AGGS_NOFN = ["all", "any", "list", "tuple"]


def jobs(tier):
    q = tier == "quick"
    T = 300 if q else 900
    J = []

    def add(fn, **part):
        J.append({"module": "c03", "fn": fn, "part": part, "timeout": T})

    N1 = 2 if q else 3
    for op in TOOLS_FN:
        add("h_flavour", op=op, S=1, N=N1, X=(0, 6), Z=(0, 4))
    for op in TOOLS_FN:
        # callable objects that are falsy / compare by value (hence unhashable)
        add("h_flavour", op=op, S=1, N=N1, X=(0, 6), Z=(0, 1), odd_fn=True)
    for op in AGGS_FN:
        add("h_flavour", op=op, S=1, N=N1, X=(0, 6), Z=(0, 1), b1=True, odd_fn=True)
    for op in TOOLS_NOFN:
        kw = {"form": 2, "PR": 2, "b0": False, "b1": False, "b2": False} if op == "islice" else {}
        add("h_flavour", op=op, S=1, N=N1, X=(0, 6), **kw)
    for op in AGGS_FN:
        add("h_flavour", op=op, S=1, N=N1, X=(0, 6), Z=(0, 4), b1=True)
    for op in AGGS_NOFN + ["min", "sorted", "nlargest"]:
        add("h_flavour", op=op, S=1, N=N1, X=(0, 6), b1=False, skip_seq=(op == "sorted"))
    for op in ("zip", "zip_longest", "chain", "chain_from", "compress"):
        add("h_flavour", op=op, S=2, N=(1 if q else 2), X=(0, 6), Y=(0, 6))
    add("h_flavour", op="map", S=2, N=1, X=(0, 6), Y=(0, 6), Z=(0, 4))
    add("h_flavour", op="starmap", S=2, N=1, X=(0, 6), Z=(0, 4))
    for b0 in (False, True):
        add("h_flavour", op="merge", S=2, N=(1 if q else 2), X=(0, 6), Y=(0, 6), b0=b0, b1=False)
        for zz in range(5):
            add("h_flavour", op="merge", S=2, N=(1 if q else 2), X=(0, 6), Y=(0, 6), Z=(zz, zz), b0=b0, b1=True)
    add("h_flavour", op="zip", S=3, N=1, X=(0, 6), Y=(0, 6))
    add("h_types")
    add("h_exit_flavour")
    for x in range(1, 7):
        if q:
            add("h_sum_flavour", x=x, N=2)
        else:
            for s0 in range(10):
                add("h_sum_flavour", x=x, N=3, s0=s0)
    return J


BOUNDS = {
    "quick": "every iterable parameter takes each of {list, __getitem__ sequence, sync iterator, async generator, class-based async iterator with aclose, without aclose, and one that is also sync-iterable} and every callable parameter each of {def, async def, partial(async def), callable object returning a coroutine, def returning a ready awaitable; separately: a falsy callable object and a value-comparing unhashable one} by symbolic selectors (up to 7x7x5 combinations per tool); data N<=2 (two-source tools N<=1), keys unbounded; result compared with the stdlib on canonical flavours; ExitStack.push / callback with each callable flavour x {falsy, truthy, raising} x block outcome; sum over numbers incl. inexact floats and strings (N<=2, thorough 3, any start) under every flavour; return-type category checked for 55 public call forms covering asyncstdlib.__all__",
    "thorough": "N<=3 (two-source tools N<=2)",
}
OUTSIDE = ["sorted(key=None) over a __getitem__-only sequence (CrossHair's sorted model rejects such sequences; covered natively by the pre-flight grid only)", "callables that return an awaitable on some calls and a plain value on others", "data sizes above the bound (flavour handling does not depend on data; stated, not proved)", "exit callbacks of ExitStack beyond push/callback with one entry (C14 covers stacks)"]
NONTRIVIAL_RULE = ">=1 item and at least one non-canonical flavour on the path"

MANIFEST = {
    "text": 'Every iterable parameter ranges over five flavours and every callable parameter over four by symbolic selectors; the result must equal the stdlib result on canonical flavours; exit callbacks of ExitStack and sum over numbers/strings are compared across flavours; 55 public call forms are checked to return an awaitable / async iterator / async context manager. Nothing is claimed outside the bounds listed in the evidence file.',
    "note": "Trusted: CrossHair 0.0.110 (with short-circuiting off and a refined callable() model), z3 5.1.0, the harness oracles. Data sizes are smaller than in C01/C02 (flavour handling does not depend on data: stated, not proved). CrossHair's sorted() model cannot take __getitem__-only sequences (skipped there).",
}
