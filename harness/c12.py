"""C12 — cached_property computes once, serves one value to all, recomputes after del."""
import asyncstdlib as A

from .world import P, World, Lock, Suspend, Cancel, Task, Choices, schedule, Driver, Fault, fail, finish, reset_run

PROPERTY = "C12"
LEVEL = "model_checking"


class AwaitableResult:
    def __init__(self, inner):
        self.inner = inner

    def __await__(self):
        return self.inner
        yield


FAILKINDS = (Fault, KeyError, AttributeError)


def _frozen_setattr(self, name, value):
    raise AttributeError("instances of this class are read-only")


def make_class(W, with_lock, gsusp, state, lock_susp=0):
    locks = []

    class LockT(Lock):
        def __init__(self):
            Lock.__init__(self, W, enter_susp=lock_susp, exit_susp=0)
            locks.append(self)

    async def getter(self):
        state["runs"] += 1
        run = state["runs"]
        state["active"] += 1
        if state["active"] > 1:
            state["overlap"] = True
        try:
            for _ in range(gsusp):
                await Suspend(W)
            if state["fail_next"]:
                state["fail_next"] = False
                raise FAILKINDS[P("failkind", 0)]("getter failed")
            val = ("value", self.name, run)
            if P("aw_value", False):
                val = AwaitableResult(val)  # the getter's value may itself be awaitable
            state["returned"].append(val)
            return val
        finally:
            state["active"] -= 1

    if with_lock:

        class Res:
            def __init__(self, name):
                object.__setattr__(self, "name", name)

            data = A.cached_property(LockT)(getter)

    else:

        class Res:
            def __init__(self, name):
                object.__setattr__(self, "name", name)

            data = A.cached_property(getter)

    if P("falsy", False):  # instances that are falsy (e.g. empty containers)
        Res.__len__ = lambda self: 0
    return Res, locks


async def _await(x):
    return await x


# ---- sequential histories ------------------------------------------------------------------
OPS = ("await", "take-placeholder", "await-placeholder", "del", "fail-next", "await-other-instance", "placeholder-of-dropped-instance", "three-times-del-then-await-the-same-placeholder")


def _pre_hist(o0, o1, o2, o3, o4, o5, with_lock):
    L = P("L", 4)
    ok = True
    for i, o in enumerate((o0, o1, o2, o3, o4, o5)):
        if i < L:
            ok = ok and 0 <= o < len(OPS)
        else:
            ok = ok and o == 0
    if P("o0") is not None:
        ok = ok and o0 == P("o0")
    if P("o1") is not None:
        ok = ok and o1 == P("o1")
    return ok


def h_hist(o0: int, o1: int, o2: int, o3: int, o4: int, o5: int, with_lock: bool):
    """
    pre: _pre_hist(o0, o1, o2, o3, o4, o5, with_lock)
    post: _[0]
    post: not _[1]
    """
    reset_run()
    L = P("L", 4)
    W = World("a")
    D = Driver(W, sync_only=True)
    state = {"runs": 0, "active": 0, "overlap": False, "fail_next": False, "returned": []}
    Res, locks = make_class(W, True if with_lock else False, 0, state)
    r0, r1 = Res("r0"), Res("r1")
    if P("frozen", False):  # instances whose class refuses attribute assignment (frozen dataclass, read-only object)
        Res.__setattr__ = _frozen_setattr
    cached = {"r0": None, "r1": None}  # reference model: the cached value per instance
    placeholders = []
    ok = True
    trace = []

    def expect_await(inst, name, aw):
        nonlocal ok
        runs0 = state["runs"]
        will_fail = state["fail_next"] and cached[name] is None
        r = D.call(_await(aw))
        if cached[name] is not None:
            if state["runs"] != runs0:
                ok = fail("cached_property:getter-ran-although-a-value-was-cached", trace) and ok
            if r[0] != "ok" or r[1] is not cached[name]:
                ok = fail("cached_property:cached-value-not-served", (trace, r)) and ok
        else:
            if state["runs"] != runs0 + 1:
                ok = fail("cached_property:getter-run-count-wrong(%d)" % (state["runs"] - runs0), trace) and ok
            if will_fail:
                if r[0] != "exc" or type(r[1]) is not FAILKINDS[P("failkind", 0)]:
                    ok = fail("cached_property:getter-failure-not-propagated", (trace, r)) and ok
            else:
                if r[0] != "ok" or not state["returned"] or r[1] is not state["returned"][-1]:
                    ok = fail("cached_property:computed-value-not-returned", (trace, r)) and ok
                else:
                    cached[name] = r[1]

    for i, o in enumerate((o0, o1, o2, o3, o4, o5)[:L]):
        op = 0
        for v in range(len(OPS)):
            if o == v:
                op = v
        trace.append(OPS[op])
        if op == 0:
            expect_await(r0, "r0", r0.data)
        elif op == 1:
            # while a value is cached the attribute *is* the (awaitable) cached value;
            # otherwise a placeholder for the future value
            placeholders.append((r0.data, cached["r0"]))
        elif op == 2:
            if placeholders:
                obj, value_when_taken = placeholders[-1]
                if value_when_taken is not None:
                    # an object obtained before a delete is not a new access: it keeps its value
                    runs0 = state["runs"]
                    r = D.call(_await(obj))
                    if r[0] != "ok" or r[1] is not value_when_taken or state["runs"] != runs0:
                        ok = fail("cached_property:value-object-changed", (trace, r)) and ok
                else:
                    expect_await(r0, "r0", obj)
        elif op == 3:
            try:
                del r0.data
                had = True
            except AttributeError:
                had = False
            # after accessing the attribute at least once there is something to delete
            cached["r0"] = None
        elif op == 4:
            state["fail_next"] = True
        elif op == 5:
            expect_await(r1, "r1", r1.data)
        elif op == 7:
            # one placeholder object survives any number of deletions
            if placeholders and placeholders[-1][1] is None:
                obj = placeholders[-1][0]
                for _rep in range(3):
                    try:
                        del r0.data
                    except AttributeError:
                        pass
                    cached["r0"] = None
                    expect_await(r0, "r0", obj)
                    if not ok:
                        break
        else:
            # the placeholder keeps working when it is the only thing left of its instance
            import gc

            tmp = Res("tmp")
            ph = tmp.data
            del tmp
            gc.collect()
            cached["tmp"] = None
            state["fail_next"] = False
            expect_await(None, "tmp", ph)
            cached.pop("tmp", None)
        if not ok:
            break
    for l in locks:
        if l.held:
            ok = fail("cached_property:lock-held-after-sequential-use") and ok
    for v in W.viol:
        ok = fail("cached_property:%s" % v) and ok
    return finish(ok, state["runs"] >= 1 and len(trace) >= 2, ("hist", bool(with_lock), tuple(trace)))


# ---- concurrent awaiters ------------------------------------------------------------------
def _pre(k, d):
    return 0 <= k <= P("K", 0) and 0 <= d <= P("D", 0)


def _body(cs, k, d):
    reset_run()
    NT = P("T", 2)
    gsusp = P("GSUSP", 1)
    with_lock = P("lock", True)
    deleter = P("D", 0) > 0
    W = World("a")
    state = {"runs": 0, "active": 0, "overlap": False, "fail_next": False, "returned": []}
    Res, locks = make_class(W, with_lock, gsusp, state, lock_susp=P("lock_susp", 0))
    res = Res("r")
    got = []

    async def awaiter(t):
        if P("shared_placeholder", False) and t > 0:
            val = await shared[0]
        else:
            val = await res.data
        got.append((t, val))
        # a later access is served from the cache
        if not deleter:
            val2 = await res.data
            if val2 is not val and with_lock:
                W.bad("cached_property:later-access-got-a-different-value")

    shared = [res.data] if P("shared_placeholder", False) else [None]

    deletes = [0]

    async def deleting():
        for _ in range(d):
            await Suspend(W)
        try:
            del res.data
            deletes[0] += 1
        except AttributeError:
            pass

    cancel = Cancel("c")
    tasks = [Task("a%d" % t, awaiter(t), cancel_at=(k if (t == 0 and P("K", 0)) else 0), cancel_exc=cancel) for t in range(NT)]
    if deleter:
        tasks.append(Task("del", deleting()))
    choices = Choices(cs)
    schedule(W, tasks, choices)
    ok = True
    cancelled = False
    for tk in tasks:
        if tk.state == "failed":
            if tk.value is cancel:
                cancelled = True
            else:
                ok = fail("cached_property:awaiter-failed-%s" % type(tk.value).__name__, (choices.trace, tk.value)) and ok
    # every awaiter received a value some getter run returned
    for t, val in got:
        if not any(val is r for r in state["returned"]):
            ok = fail("cached_property:value-no-getter-run-returned", (choices.trace, val)) and ok
    if with_lock and not deleter:
        completed = len(state["returned"])
        if completed > 1:
            ok = fail("cached_property:getter-ran-more-than-once-under-lock", (choices.trace, state["runs"])) and ok
        if state["overlap"]:
            ok = fail("cached_property:getter-runs-overlapped-under-lock", choices.trace) and ok
        vals = [v for _, v in got]
        if vals and any(v is not vals[0] for v in vals):
            ok = fail("cached_property:awaiters-received-different-values-under-lock", (choices.trace, vals)) and ok
        if not cancelled and state["runs"] != 1:
            ok = fail("cached_property:getter-run-count-under-lock", (choices.trace, state["runs"])) and ok
    if with_lock and deleter and not cancelled and state["runs"] > 1 + deletes[0]:
        # every delete permits one recomputation
        ok = fail("cached_property:more-getter-runs-than-deletes-permit-under-lock", (choices.trace, state["runs"], deletes[0])) and ok
    if not deleter and state["returned"]:
        # a failed or cancelled computation neither caches nor removes anything: the value of
        # the last getter run to return is still cached
        if res.__dict__.get("data") is None or getattr(res.__dict__.get("data"), "value", None) is not state["returned"][-1]:
            runs_q = state["runs"]
            rq = Driver(W).call(_await(res.data))
            if state["runs"] != runs_q or rq[0] != "ok" or rq[1] is not state["returned"][-1]:
                ok = fail("cached_property:cached-value-lost-without-delete", (choices.trace,)) and ok
    if not cancelled and len(got) != NT:
        ok = fail("cached_property:an-awaiter-did-not-finish", (choices.trace, got)) and ok
    for l in locks:
        if l.held:
            ok = fail("cached_property:lock-held-at-quiescence", choices.trace) and ok
    # afterwards: accesses are served from the cache (one more getter run at most if nothing is cached)
    D = Driver(W)
    runs0 = state["runs"]
    r1 = D.call(_await(res.data))
    r2 = D.call(_await(res.data))
    if r1[0] != "ok" or r2[0] != "ok" or r1[1] is not r2[1] or state["runs"] > runs0 + 1:
        ok = fail("cached_property:not-cached-at-quiescence", (choices.trace, r1, r2)) and ok
    for v in W.viol:
        ok = fail(v if v.startswith("cached") else "cached_property:%s" % v, choices.trace) and ok
    switches = 0
    for p, q in zip(choices.trace, choices.trace[1:]):
        if p != q:
            switches += 1
    return finish(ok, switches >= 1, ("cprop", NT, bool(with_lock), tuple(choices.trace), cancelled))


from .sched import define, NCH  # noqa: E402

h_conc = define("h_conc", "k: int, d: int", "k, d", "_pre", "_body", globals())


def _grid():
    import random

    rnd = random.Random(59)
    return [tuple([rnd.randint(0, 3) for _ in range(NCH)] + [rnd.randint(0, P("K", 0)), rnd.randint(0, P("D", 0))]) for _ in range(200)]


GRID = {
    "h_conc": _grid,
    "h_hist": lambda: [(a, b, c, d, 0, 0, w) for a in range(8) for b in range(8) for c in range(8) for d in (0, 2, 3) for w in (False, True) if P("o0") in (None, a) and P("o1") in (None, b)],
}


def jobs(tier):
    q = tier == "quick"
    T = 400 if q else 900
    J = []

    def add(fn, **part):
        J.append({"module": "c12", "fn": fn, "part": part, "timeout": T})

    for o0 in range(8):
        if q:
            add("h_hist", L=4, o0=o0)
        else:
            for o1 in range(8):
                add("h_hist", L=5, o0=o0, o1=o1)
    add("h_hist", L=3, aw_value=True)
    add("h_hist", L=3, falsy=True)
    add("h_hist", L=3, frozen=True)
    add("h_hist", L=3, failkind=1)
    add("h_hist", L=3, failkind=2)
    for lock in (True, False):
        add("h_conc", T=2, GSUSP=1, lock=lock)
        add("h_conc", T=2, GSUSP=2, lock=lock)
        add("h_conc", T=3, GSUSP=1, lock=lock)
        add("h_conc", T=2, GSUSP=1, lock=lock, shared_placeholder=True)
        add("h_conc", T=2, GSUSP=1, lock=lock, D=2)
        if lock:
            add("h_conc", T=3, GSUSP=1, lock=True, D=1)
        add("h_conc", T=2, GSUSP=2, lock=lock, K=3)
        if lock:
            add("h_conc", T=2, GSUSP=1, lock=True, lock_susp=1)
            add("h_conc", T=3, GSUSP=(1 if q else 2), lock=True, K=3)
        if not q:
            add("h_conc", T=3, GSUSP=2, lock=lock)
            add("h_conc", T=4, GSUSP=1, lock=lock)
            add("h_conc", T=3, GSUSP=1, lock=lock, D=2)
    return J


BOUNDS = {
    "quick": "sequential histories of 4 operations over {await, take placeholder, await placeholder later, del, getter fails next, await on a second instance} with and without lock type (length 3 also with awaitable values, falsy instances, read-only instances, getters failing with KeyError / AttributeError); all interleavings of 2..3 awaiting tasks with a getter suspending 1..2 times, with and without lock type (incl. suspending lock acquisition), awaiters sharing one placeholder, a deleting task (delete after 0..2 suspensions), one awaiter cancelled at its k-th suspension (k<=3)",
    "thorough": "histories of 5 operations; 3 tasks with 2 suspensions, 4 tasks with 1 suspension",
}
OUTSIDE = ["4 tasks with 2 suspensions and no lock (2.6*10^5 schedules)", "while a delete races a computation only value/liveness invariants are asserted (at-most-once is asserted per cached value when no delete intervenes)"]
NONTRIVIAL_RULE = "histories: >=1 getter run and >=2 operations; schedules: >=1 context switch"

MANIFEST = {
    "text": 'Sequential histories against a reference model plus bounded model checking of concurrent awaiters with/without lock type, shared placeholders, a deleting task and cancellation: at most one getter run per cached value under a lock, one value to all, nothing cached by failed/cancelled runs, nothing lost without delete. Nothing is claimed outside the bounds listed in the evidence file.',
    "note": 'Trusted: CrossHair 0.0.110 (with short-circuiting off and a refined callable() model), z3 5.1.0, the harness oracles. While a delete races a computation only value/liveness/run-count invariants are asserted.',
}
