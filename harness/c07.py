"""C07 — a borrowed iterator can never close its underlying iterator."""
import asyncstdlib as A

from .world import P, World, Driver, Item, fail, finish, Suspended, reset_run, same_seq, take_sync, call_sync
from .apps import APPS, AGG_APPS
from .gen import pick

PROPERTY = "C07"
C07_APPS = [a for a in sorted(APPS) if a not in ("iter", "borrow", "any_iter")]
CLOSES_UNADVANCED = ("chain", "chain2")
KINDS = ("agen", "acls", "bare", "afull")
NOPS = 8


class Counting:
    def __init__(self, items):
        self.items = items
        self.n = 0

    def __iter__(self):
        return self

    def __next__(self):
        if self.n >= len(self.items):
            raise StopIteration
        self.n += 1
        return self.items[self.n - 1]


def _pre(n, o0, o1, o2, o3, o4, t, j, kind):
    ok = 0 <= n <= P("N", 3) and 0 <= j <= 3 and 0 <= kind <= 3 and 0 <= t < len(C07_APPS) + len(AGG_APPS)
    for o in (o0, o1, o2, o3, o4):
        ok = ok and 0 <= o < NOPS
    if P("kind") is not None:
        ok = ok and kind == P("kind")
    if P("t") is not None:
        ok = ok and t == P("t")
    if P("o0") is not None:
        ok = ok and o0 == P("o0")
    if P("j") is not None:
        ok = ok and j == P("j")
    if P("n") is not None:
        ok = ok and n == P("n")
    return ok


def h_borrow(n: int, k0: int, k1: int, k2: int, k3: int, o0: int, o1: int, o2: int, o3: int, o4: int, t: int, j: int, kind: int):
    """
    pre: _pre(n, o0, o1, o2, o3, o4, t, j, kind)
    post: _[0]
    post: not _[1]
    """
    reset_run()
    L = P("L", 3)
    keys = [k0, k1, k2, k3]
    items = []
    for i in range(n):
        items.append(Item(keys[i], "0.%d" % i))
    if P("none_item") is not None and P("none_item") < n:
        items[P("none_item")] = None  # None is an item like any other
    kd = pick(KINDS, kind)
    Wa = World("a")
    D = Driver(Wa, sync_only=True)
    src = Wa.source(items, kd)
    st = Wa.srcs[0]
    handles = []
    ok = True
    cursor = 0
    bclosed = False
    trace = []
    ntool = 0
    try:
        b = A.borrow(src)
        handles.append(b)
        ops = [o0, o1, o2, o3, o4]
        for i in range(L):
            op = 0
            for v in range(NOPS):
                if ops[i] == v:
                    op = v
            trace.append(op)
            if op in (0, 1, 4):
                if op == 4 and not hasattr(b, "asend"):
                    continue
                if op == 0:
                    got, end = D.take(b, 1)
                elif op == 1:
                    got, end = D.take(src, 1)
                else:
                    r = D.call(b.asend(None))
                    if r[0] == "ok":
                        got, end = [r[1]], None
                    elif type(r[1]) is StopAsyncIteration:
                        got, end = [], "stop"
                    else:
                        got, end = [], r[1]
                dead = bclosed and op != 1
                if dead or cursor >= len(items):
                    if got or end != "stop":
                        ok = fail("borrow:%s" % ("closed-handle-yielded" if dead else "item-after-exhaustion"), (trace, got, end)) and ok
                else:
                    if len(got) != 1 or got[0] is not items[cursor] or end is not None:
                        ok = fail("borrow:wrong-item", (trace, got, end, cursor)) and ok
                    cursor += 1
            elif op == 2:
                r = D.aclose(b)
                if r[0] == "exc":
                    ok = fail("borrow:aclose-raised") and ok
                bclosed = True
            elif op == 3:
                r = D.aclose(A.iter(b))
                r2 = D.aclose(b.__aiter__())
                if r[0] == "exc" or r2[0] == "exc":
                    ok = fail("borrow:aclose-via-iter-raised") and ok
                bclosed = True
            elif op == 5:
                b = A.borrow(src)
                handles.append(b)
                bclosed = False
            elif op == 7:
                # borrow the handle itself: the new handle is as alive as the old one
                b = A.borrow(b)
                handles.append(b)
            else:
                ntool += 1
                na = len(C07_APPS)
                if t < na:
                    name = pick(C07_APPS, t)
                    mk_a, mk_s = APPS[name]
                    sit = Counting([] if bclosed else items[cursor:])
                    ta = mk_a(b)
                    handles.append(ta)
                    ga, ea = D.take(ta, j)
                    rc = D.aclose(ta)
                    gs, es = take_sync(mk_s(sit), j)
                    if rc[0] == "exc":
                        ok = fail("borrow:tool-%s-aclose-raised" % name) and ok
                    if not same_seq(ga, gs) or (ea == "stop") != (es == "stop"):
                        ok = fail("borrow:tool-%s-items-differ" % name, (trace, ga, gs, ea, es)) and ok
                    cursor += sit.n
                    if not bclosed:
                        bclosed = j >= 1 or name in CLOSES_UNADVANCED
                else:
                    name = pick(sorted(AGG_APPS), t - na)
                    mk_a, mk_s = AGG_APPS[name]
                    sit = Counting([] if bclosed else items[cursor:])
                    ra = D.call(mk_a(b))
                    rs = call_sync(mk_s, sit)
                    if ra[0] != rs[0]:
                        ok = fail("borrow:agg-%s-outcome-differs" % name, (ra, rs)) and ok
                    cursor += sit.n
                    bclosed = True
            if st.closed:
                ok = fail("borrow:underlying-closed", trace) and ok
                break
            if st.pos != cursor:
                ok = fail("borrow:underlying-advanced-unexpectedly", (trace, st.pos, cursor)) and ok
                break
        # the owner still gets the remaining items, in order
        rest, end = D.take(src, len(items) + 1)
        if not same_seq(rest, items[cursor:]) or end != "stop":
            ok = fail("borrow:owner-lost-items", (trace, rest, cursor)) and ok
        if st.closed:
            ok = fail("borrow:underlying-closed", trace) and ok
    except Suspended:
        return finish(fail("borrow:suspended-with-nonsuspending-arguments"), False)
    for v in Wa.viol:
        ok = fail("borrow:%s" % v) and ok
    return finish(ok, len(items) >= 2 and len(trace) >= 2, ("borrow", kd, len(items), tuple(trace)))


def _grid():
    import random

    rnd = random.Random(31)
    out = []
    NT = len(C07_APPS) + len(AGG_APPS)
    for _ in range(300):
        t = P("t") if P("t") is not None else rnd.randrange(NT)
        kind = P("kind") if P("kind") is not None else rnd.randrange(4)
        o0 = P("o0") if P("o0") is not None else rnd.randrange(NOPS)
        out.append(tuple([rnd.randint(0, P("N", 3))] + [rnd.choice([-1, 0, 1, 2]) for _ in range(4)] + [o0] + [rnd.randrange(NOPS) for _ in range(4)] + [t, rnd.randint(0, 3), kind]))
    return out


GRID = {"h_borrow": _grid}


def jobs(tier):
    q = tier == "quick"
    T = 300 if q else 900
    J = []
    NT = len(C07_APPS) + len(AGG_APPS)
    L = 3 if q else 4
    for kind in range(4):
        # operation sequences (the tool operation uses one representative tool, j=1) ...
        for o0 in range(NOPS):
            J.append({"module": "c07", "fn": "h_borrow", "part": {"N": 3, "n": 3, "j": 1, "L": L + 1, "kind": kind, "t": C07_APPS.index("islice2"), "o0": o0}, "timeout": T})
    for o0 in range(NOPS):
        J.append({"module": "c07", "fn": "h_borrow", "part": {"N": 3, "n": 3, "j": 1, "L": L, "kind": (0 if o0 % 2 else 1), "t": C07_APPS.index("islice2"), "o0": o0, "none_item": 1}, "timeout": T})
    # ... and every tool handed the borrowed iterator as the first operation
    for t in range(NT):
        for kind in ((0, 3) if q else (0, 1, 2, 3)):
            J.append({"module": "c07", "fn": "h_borrow", "part": {"N": 3, "L": L - 1, "kind": kind, "t": t, "o0": 6}, "timeout": T})
    return J


LEVEL = "other"
BOUNDS = {
    "quick": "operation sequences of length 4 (3 items, tool operation = islice with j=1) over {next borrowed, next underlying, close borrowed, close via iter(borrowed), asend(None), re-borrow the underlying, borrow the handle itself, pass to a tool (j<=3 items) then close it}; every tool of the application table (20 iterator tools, 6 aggregations) as first operation (j=0..3 items, N<=3) followed by 1 further symbolic operation and the owner draining the rest; underlying: async generator, class with aclose, bare class, class with the full asend/athrow/aclose protocol; N<=3 items, keys unbounded; operation sequences of length 3 also with None as the second item",
    "thorough": "sequences of length 5 / tool followed by 2 operations, all three underlying kinds",
}
OUTSIDE = ["athrow through the handle (forwarded to the underlying iterator by design)", "concurrent use of handle and underlying iterator", "sequences longer than the bound"]
NONTRIVIAL_RULE = ">=2 items and >=2 operations executed on the path"

MANIFEST = {
    "text": 'Symbolic operation sequences over a borrowed handle and its underlying iterator against a list-cursor reference model: underlying never closed, every item served exactly once in order, a closed handle yields nothing and does not advance the cursor; every tool of an application table as consumer. Nothing is claimed outside the bounds listed in the evidence file.',
    "note": 'Trusted: CrossHair 0.0.110 (with short-circuiting off and a refined callable() model), z3 5.1.0, the harness oracles. Reference for what a tool consumes: the stdlib tool over a counting sync iterator.',
}
