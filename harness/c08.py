"""C08 — scoped_iter keeps an iterator alive for the block and closes it exactly at exit."""
import asyncstdlib as A

from .world import P, World, Driver, Item, Fault, Cancel, Suspend, fail, finish, Suspended, reset_run, same_seq, take_sync
from .apps import APPS
from .gen import pick
from .c07 import Counting

PROPERTY = "C08"


class _NoAdd:
    """A start value nothing can be added to (builtin sum refuses str starts up front)."""


_NOSTART = _NoAdd()
C08_APPS = ["anext", "islice2", "takewhile", "zip_first", "zip_second", "batched2", "pairwise", "islice022", "merge2", "sum_failing", "groupby_stale", "zip_strict3", "zip_longest_same", "enumerate", "chain", "filter", "merge1", "iter", "borrow", "map", "dropwhile", "islice13", "accumulate", "zip_longest", "compress", "cycle"]
NA = len(C08_APPS)


def _pre(n, a0, a1, a2, j0, j1, j2, d0, d1, d2, depth, exitkind, e, x):
    LP = P("LP", 2)
    ok = 0 <= n <= P("N", 3) and 1 <= depth <= P("D", 2) and 0 <= exitkind <= P("EX", 1) and 0 <= x <= P("XC", 0)
    ok = ok and ((0 <= e <= LP) if P("EX", 1) else e == 0)
    A0 = P("apps", NA)
    JR = P("J", (0, 2))
    vals = {"n": n, "a0": a0, "a1": a1, "a2": a2, "j0": j0, "j1": j1, "j2": j2, "d0": d0, "d1": d1, "d2": d2, "depth": depth, "exitkind": exitkind, "e": e}
    for i, (a, j, d) in enumerate(((a0, j0, d0), (a1, j1, d1), (a2, j2, d2))):
        if i < LP:
            ok = ok and 0 <= a < (NA if i == 0 else A0) and JR[0] <= j <= JR[1] and 0 <= d <= 2
        else:  # unused: pinned so that they cost nothing
            ok = ok and a == 0 and j == 0 and d == 0
    fix = P("fix", {})
    for nm in fix:
        ok = ok and vals[nm] == fix[nm]
    return ok


def h_scoped(n: int, k0: int, k1: int, k2: int, k3: int, a0: int, a1: int, a2: int, j0: int, j1: int, j2: int, d0: int, d1: int, d2: int, depth: int, exitkind: int, e: int, x: int):
    """
    pre: _pre(n, a0, a1, a2, j0, j1, j2, d0, d1, d2, depth, exitkind, e, x)
    post: _[0]
    post: not _[1]
    """
    reset_run()
    LP = P("LP", 2)  # applications per block
    keys = [k0, k1, k2, k3]
    items = []
    for i in range(n):
        items.append(Item(keys[i], "0.%d" % i))
    susp = 1 if P("XC", 0) else 0
    Wa = World("a", susp=susp)
    cancel = Cancel("c")
    D = Driver(Wa, sync_only=(susp == 0), cancel_at=x, cancel_exc=cancel)
    src = Wa.source(items, P("fl", "agen"))
    st = Wa.srcs[0]
    sit = Counting(items)
    boom = Fault("raised-in-block")
    progs = []
    for a, j, d in ((a0, j0, d0), (a1, j1, d1), (a2, j2, d2))[:LP]:
        progs.append((pick(C08_APPS[: P("apps", NA)], a) if len(progs) else pick(C08_APPS, a), j, d))
    keep = []
    res_a = []
    inner_closed = []

    async def apply(it, name, j, disp):
        out = []
        if name == "anext":
            for _ in range(j):
                try:
                    out.append(await A.anext(it))
                except StopAsyncIteration:
                    break
            return out
        if name == "sum_failing":
            # an aggregation that fails at its first addition leaves the rest in the handle
            try:
                await A.sum(it, _NOSTART)
            except TypeError:
                pass
            return out
        if name == "groupby_stale":
            g = A.groupby(it, key=lambda v: v.key > 0)
            keep.append(g)
            try:
                k1, g1 = await g.__anext__()
                out.append(await g1.__anext__())
                k2, g2 = await g.__anext__()
                out.append(await g2.__anext__())
                try:
                    await g1.__anext__()  # a stale group yields nothing and touches nothing
                    out.append("stale-group-yielded")
                except StopAsyncIteration:
                    pass
            except StopAsyncIteration:
                pass
            return out
        ta = APPS[name][0](it)
        keep.append(ta)
        cap = len(items) + 2 if disp == 0 else j
        for _ in range(cap):
            try:
                out.append(await ta.__anext__())
            except StopAsyncIteration:
                break
            except ValueError:
                out.append("ValueError")
                break
        if disp == 1 and hasattr(ta, "aclose"):
            await ta.aclose()
        return out

    async def run_apps(it, level):
        for idx, (name, j, disp) in enumerate(progs):
            if exitkind == 1 and e == idx:
                raise boom
            res_a.append(await apply(it, name, j, disp))
            if st.closed:
                Wa.bad("scoped_iter:underlying-closed-inside-block")
        if exitkind == 1 and e >= len(progs):
            raise boom

    async def block(it_or_src, level):
        async with A.scoped_iter(it_or_src) as it:
            if level < depth:
                await block(it, level + 1)
                if st.closed:
                    Wa.bad("scoped_iter:inner-exit-closed-underlying")
                # the inner handle is dead although the outer scope is still open
                inner = handles[-1] if handles else None
                if inner is not None:
                    pos0 = st.pos
                    for meth in ("__anext__", "asend"):
                        if hasattr(inner, meth):
                            try:
                                if meth == "asend":
                                    await inner.asend(None)
                                else:
                                    await inner.__anext__()
                                Wa.bad("scoped_iter:ended-inner-handle-still-yields(%s)" % meth)
                            except StopAsyncIteration:
                                pass
                    if hasattr(inner, "athrow"):
                        try:
                            await inner.athrow(Fault("thrown-into-dead-handle"))
                        except (StopAsyncIteration, Fault):
                            pass
                    if st.pos != pos0:
                        Wa.bad("scoped_iter:ended-inner-handle-advances-underlying")
                    if st.closed:
                        Wa.bad("scoped_iter:ended-inner-handle-closes-underlying")
                # the outer handle still works after the inner scope ended
                try:
                    res_a.append(("outer", [await A.anext(it)]))
                except StopAsyncIteration:
                    res_a.append(("outer", []))
            else:
                await run_apps(it, level)
            handles.append(it)

    handles = []
    ok = True
    try:
        r = D.call(block(src, 1))
    except Suspended:
        return finish(fail("scoped_iter:suspended-with-nonsuspending-arguments"), False)
    # ---- oracle: the same program over one shared sync iterator ---------------------------
    res_s = []
    raised = False
    for idx, (name, j, disp) in enumerate(progs):
        if exitkind == 1 and e == idx:
            raised = True
            break
        if name == "anext":
            got, _ = take_sync(sit, j)
        elif name == "sum_failing":
            try:
                sum(sit, _NOSTART)
            except TypeError:
                pass
            got = []
        elif name == "groupby_stale":
            import itertools as _it

            got = []
            gs = _it.groupby(sit, key=lambda v: v.key > 0)
            try:
                k1, g1 = next(gs)
                got.append(next(g1))
                k2, g2 = next(gs)
                got.append(next(g2))
                try:
                    next(g1)
                    got.append("stale-group-yielded")
                except StopIteration:
                    pass
            except StopIteration:
                pass
        elif name == "zip_strict3":
            cap = len(items) + 2 if disp == 0 else j
            got = []
            zs = APPS[name][1](sit)
            for _ in range(cap):
                try:
                    got.append(next(zs))
                except StopIteration:
                    break
                except ValueError:
                    got.append("ValueError")
                    break
        else:
            cap = len(items) + 2 if disp == 0 else j
            got, _ = take_sync(APPS[name][1](sit), cap)
        res_s.append(got)
    if exitkind == 1 and not raised:
        raised = True
    if not raised:
        for lvl in range(depth - 1):
            got, _ = take_sync(sit, 1)
            res_s.append(("outer", got))
    cancelled = D.cancelled
    if not cancelled:
        # results of every application equal those over the shared sync iterator
        if len(res_a) != len(res_s):
            ok = fail("scoped_iter:applications-differ", (res_a, res_s)) and ok
        else:
            for ra, rs in zip(res_a, res_s):
                if type(rs) is tuple:
                    if type(ra) is not tuple or not same_seq(ra[1], rs[1]):
                        ok = fail("scoped_iter:outer-handle-item-differs", (res_a, res_s)) and ok
                elif type(ra) is tuple or not same_seq(ra, rs):
                    ok = fail("scoped_iter:tool-items-differ", (progs, res_a, res_s)) and ok
        if st.pos != sit.n:
            ok = fail("scoped_iter:consumed-count-differs", (st.pos, sit.n)) and ok
        if raised:
            if not (r[0] == "exc" and r[1] is boom):
                ok = fail("scoped_iter:block-exception-not-propagated", r) and ok
        elif r[0] != "ok":
            ok = fail("scoped_iter:block-raised", r) and ok
    else:
        if not (r[0] == "exc" and r[1] is cancel):
            ok = fail("scoped_iter:cancellation-not-propagated", r) and ok
    # after the block: closed exactly once, handle dead
    if not st.is_released():
        ok = fail("scoped_iter:underlying-not-closed-after-exit") and ok
    if st.closed > 1:
        ok = fail("scoped_iter:underlying-closed-more-than-once", st.closed) and ok
    pos = st.pos
    D2 = Driver(Wa)
    for h in handles:
        got, end = D2.take(h, 1)
        if got or end != "stop":
            ok = fail("scoped_iter:handle-yields-after-exit", (got, end)) and ok
        if hasattr(h, "asend"):
            r = D2.call(h.asend(None))
            if not (r[0] == "exc" and type(r[1]) is StopAsyncIteration):
                ok = fail("scoped_iter:handle-asend-works-after-exit", r) and ok
    if st.pos != pos:
        ok = fail("scoped_iter:handle-advances-underlying-after-exit") and ok
    for v in Wa.viol:
        ok = fail(v) and ok
    served = 0
    for rs in res_s:
        served += len(rs[1]) if type(rs) is tuple else len(rs)
    nt = len(items) >= 2 and (served >= 1 or cancelled or st.pos >= 1)
    return finish(ok, nt, ("scoped", len(items), tuple(p[0] for p in progs), depth, exitkind, cancelled))


def _grid():
    import random

    rnd = random.Random(37)
    out = []
    A0 = P("apps", NA)
    for _ in range(300):
        fx = P("fix", {})
        a0 = fx.get("a0", rnd.randrange(A0))
        depth = fx.get("depth", rnd.randint(1, P("D", 2)))
        out.append(tuple([rnd.randint(0, P("N", 3))] + [rnd.choice([-1, 0, 1, 2]) for _ in range(4)] + [a0, rnd.randrange(A0), rnd.randrange(A0)] + [rnd.randint(0, 2) for _ in range(6)] + [depth, rnd.randint(0, P("EX", 1)), rnd.randint(0, 3), rnd.randint(0, P("XC", 0))]))
    return out


GRID = {"h_scoped": _grid}


def jobs(tier):
    q = tier == "quick"
    T = 300 if q else 900
    J = []

    def add(**part):
        J.append({"module": "c08", "fn": "h_scoped", "part": part, "timeout": T})

    N = 3
    for a0 in range(NA):
        # A: every tool followed by one of the 13 consumption-distinct tools over the shared iterator
        for jr in ((1, 1), (2, 2)) if a0 == 8 else ((1, 2),):  # merge first: split by items taken
            add(N=N, LP=2, apps=13, D=1, EX=0, J=jr, fix={"a0": a0, "n": N, "d1": 0}, fl="agen")
        # B: every tool alone: all lengths, items taken, dispositions, exit by exception before/after
        add(N=N, LP=1, apps=NA, D=1, EX=1, fix={"a0": a0}, fl=("acls" if a0 % 2 else "agen"))
    # C: nesting depth 2..3 (application innermost, outer handles used after inner exit)
    for depth in (2, 3):
        for fl in ("agen", "acls"):
            add(N=N, LP=1, apps=13, D=3, EX=1, fix={"depth": depth, "n": N}, fl=fl)
    # sync iterables under scoped_iter (their helper iterator must be protected as well)
    for fl in ("iter", "seq", "llist"):
        for a0 in (1, 3, 5):
            add(N=N, LP=2, apps=4, D=2, EX=0, J=(1, 2), fix={"a0": a0, "n": N, "d1": 0}, fl=fl)
    # D: cancellation at every suspension point (sources suspend once per pull), depth 1..2
    for a0 in range(13):
        add(N=2, LP=1, apps=13, D=2, EX=0, XC=7, fix={"a0": a0, "n": 2}, fl=("acls" if a0 % 2 else "agen"))
    if not q:
        for a0 in range(13):
            for a1 in range(13):
                for jr in ((1, 1), (2, 2)) if (a0 == 8 and a1 == 8) else ((1, 2),):  # merge twice: split by items taken
                    add(N=N, LP=3, apps=13, D=1, EX=1, J=jr, fix={"a0": a0, "a1": a1, "n": N, "d1": 1, "d2": 0}, fl="acls")
    return J


LEVEL = "other"
BOUNDS = {
    "quick": "block programs of 2 applications (tool by symbolic selector from 20 tools; second from the 13 consumption-distinct ones), j<=2 items each, disposition exhausted/closed/abandoned, exit by fall-through or an exception raised before application e or after the last; nesting depth 1..3 (one application innermost, outer handle used after inner exit); cancellation at suspension k<=6 with suspending sources; N<=2..3 items, keys unbounded",
    "thorough": "3 applications, N<=3, class-based sources",
}
OUTSIDE = ["more than 3 applications per block", "nesting deeper than 3", "concurrent use of the scoped handle"]
NONTRIVIAL_RULE = ">=2 items and >=1 item served to / consumed by an application (or a delivered cancellation) on the path"

MANIFEST = {
    "text": 'Block programs (tools by symbolic selector, items taken, closed/abandoned/exhausted), nesting depth 1..3, exit by fall-through / exception / cancellation; compared with the same program over one shared sync iterator; underlying closed exactly once after the outermost exit, dead handles probed with __anext__/asend/athrow. Nothing is claimed outside the bounds listed in the evidence file.',
    "note": 'Trusted: CrossHair 0.0.110 (with short-circuiting off and a refined callable() model), z3 5.1.0, the harness oracles. Oracle: stdlib tools over a shared counting iterator.',
}
