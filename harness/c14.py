"""C14 — ExitStack unwinds like nested async-with; each exit runs exactly once."""
import contextlib

import asyncstdlib as A

from .world import P, World, Driver, fail, finish, Suspended, reset_run

PROPERTY = "C14"


class New(Exception):
    def __init__(self, label):
        Exception.__init__(self, label)
        self.label = label


class BlockExc(Exception):
    label = "block"


class FalsyNew(Exception):
    """A replacement exception whose truth value is False."""

    def __init__(self, label):
        Exception.__init__(self, label)
        self.label = label

    def __len__(self):
        return 0


class NewBase(BaseException):
    def __init__(self, label):
        BaseException.__init__(self, label)
        self.label = label


KINDS = ("acm", "scm", "push-async-fn", "push-sync-fn", "callback-sync", "callback-async", "push-acm", "push-scm", "push-async-obj", "push-async-partial", "callback-async-obj", "push-fn-returning-awaitable", "callback-kwargs-only")
BEHS = ("falsy", "truthy", "raise-new", "raise-new-if-exception", "raise-new-BaseException", "raise-new-falsy-exception")
NK, NB = len(KINDS), len(BEHS)


def lab(ev):
    if ev is None:
        return None
    return getattr(ev, "label", type(ev).__name__)


class Entry:
    """One registered thing; `log` gets (id, label of the exception received)."""

    def __init__(self, eid, kind, beh, log, enter_fails=False):
        self.eid, self.kind, self.beh, self.log, self.enter_fails = eid, kind, beh, log, enter_fails

    def _exit(self, ev):
        self.log.append(("exit", self.eid, lab(ev)))
        b = self.beh
        if b == 0:
            return None
        if b == 1:
            return True
        if b == 2:
            raise New("new-%d" % self.eid)
        if b == 4:
            raise NewBase("newbase-%d" % self.eid)
        if b == 5:
            raise FalsyNew("newfalsy-%d" % self.eid)
        if ev is not None:
            raise New("new-%d" % self.eid)
        return 0

    def _cb(self, *args, **kw):
        want_args = () if self.kind == 12 else ("arg",)
        if args != want_args or kw != {"kw": 1}:
            self.log.append(("bad-callback-args", self.eid))
        self.log.append(("exit", self.eid, "-"))
        b = self.beh
        if b == 1:
            return True  # must not suppress
        if b == 4:
            raise NewBase("newbase-%d" % self.eid)
        if b == 5:
            raise FalsyNew("newfalsy-%d" % self.eid)
        if b >= 2:
            raise New("new-%d" % self.eid)
        return None

    # the different shapes -------------------------------------------------
    def acm(self):
        e = self

        class ACM:
            async def __aenter__(self):
                e.log.append(("enter", e.eid))
                if e.enter_fails:
                    raise New("enter-%d" % e.eid)
                return ("val", e.eid)

            async def __aexit__(self, et, ev, tb):
                return e._exit(ev)

        return ACM()

    def scm(self):
        e = self

        class SCM:
            def __enter__(self):
                e.log.append(("enter", e.eid))
                if e.enter_fails:
                    raise New("enter-%d" % e.eid)
                return ("val", e.eid)

            def __exit__(self, et, ev, tb):
                return e._exit(ev)

        return SCM()

    def afn(self):
        e = self

        async def aexit(et, ev, tb):
            return e._exit(ev)

        return aexit

    def sfn(self):
        e = self

        def sexit(et, ev, tb):
            return e._exit(ev)

        return sexit

    def aobj(self):
        e = self

        class ExitObj:  # not a coroutine function: its call returns a coroutine
            def __call__(self, et, ev, tb):
                async def run():
                    return e._exit(ev)

                return run()

        return ExitObj()

    def awfn(self):
        e = self

        class Later:  # an awaitable that is not a coroutine
            def __init__(self, ev):
                self.ev = ev

            def __await__(self):
                return e._exit(self.ev)
                yield

        def fn(et, ev, tb):
            return Later(ev)

        return fn

    def apartial(self):
        import functools

        e = self

        async def aexit(_x, et, ev, tb):
            return e._exit(ev)

        return functools.partial(aexit, None)

    def acbobj(self):
        e = self

        class CbObj:
            def __call__(self, *a, **k):
                async def run():
                    return e._cb(*a, **k)

                return run()

        return CbObj()

    def scb(self):
        return self._cb

    def acb(self):
        e = self

        async def cb(*a, **k):
            return e._cb(*a, **k)

        return cb


async def reg_async(stack, e):
    """Register with asyncstdlib.ExitStack (async neutral API)."""
    k = e.kind
    if k == 0:
        return await stack.enter_context(e.acm())
    if k == 1:
        return await stack.enter_context(e.scm())
    if k == 2:
        return stack.push(e.afn())
    if k == 3:
        return stack.push(e.sfn())
    if k == 4:
        return stack.callback(e.scb(), "arg", kw=1)
    if k == 5:
        return stack.callback(e.acb(), "arg", kw=1)
    if k == 6:
        return stack.push(e.acm())
    if k == 7:
        return stack.push(e.scm())
    if k == 8:
        return stack.push(e.aobj())
    if k == 9:
        return stack.push(e.apartial())
    if k == 10:
        return stack.callback(e.acbobj(), "arg", kw=1)
    if k == 11:
        return stack.push(e.awfn())
    return stack.callback(e.scb(), kw=1)


async def reg_std(stack, e):
    """Register with contextlib.AsyncExitStack."""
    k = e.kind
    if k == 0:
        return await stack.enter_async_context(e.acm())
    if k == 1:
        return stack.enter_context(e.scm())
    if k == 2:
        return stack.push_async_exit(e.afn())
    if k == 3:
        return stack.push(e.sfn())
    if k == 4:
        return stack.callback(e.scb(), "arg", kw=1)
    if k == 5:
        return stack.push_async_callback(e.acb(), "arg", kw=1)
    if k == 6:
        return stack.push_async_exit(e.acm())
    if k == 7:
        return stack.push(e.scm())
    if k == 8:
        return stack.push_async_exit(e.aobj())
    if k == 9:
        return stack.push_async_exit(e.apartial())
    if k == 10:
        return stack.push_async_callback(e.acbobj(), "arg", kw=1)
    if k == 11:
        return stack.push_async_exit(e.awfn())
    return stack.callback(e.scb(), kw=1)


class _AsCM:
    """An entry as a context manager for the nested-with oracle."""

    def __init__(self, e):
        self.e = e
        k = e.kind
        self.inner = e.acm() if k in (0, 6) else (e.scm() if k in (1, 7) else None)

    async def __aenter__(self):
        k = self.e.kind
        if k == 0:
            return await self.inner.__aenter__()
        if k == 1:
            return self.inner.__enter__()
        return None

    async def __aexit__(self, et, ev, tb):
        k = self.e.kind
        if k in (0, 6):
            return await self.inner.__aexit__(et, ev, tb)
        if k in (1, 7):
            return self.inner.__exit__(et, ev, tb)
        if k in (2, 3, 8, 9, 11):
            return self.e._exit(ev)
        if k == 12:
            self.e._cb(kw=1)
        else:
            self.e._cb("arg", kw=1)
        return False


async def nested(entries, i, block_raises):
    if i == len(entries):
        if block_raises:
            raise BlockExc("block")
        return "done"
    async with _AsCM(entries[i]):
        return await nested(entries, i + 1, block_raises)
    return "suppressed"


def _run(D, mode, specs, block_raises, failing):
    log = []
    entries = [Entry(i, k, b, log, enter_fails=(failing == i and k in (0, 1))) for i, (k, b) in enumerate(specs)]

    async def prog():
        try:
            if mode == "a":
                async with A.ExitStack() as st:
                    for e in entries:
                        await reg_async(st, e)
                    if block_raises:
                        raise BlockExc("block")
            elif mode == "s":
                async with contextlib.AsyncExitStack() as st:
                    for e in entries:
                        await reg_std(st, e)
                    if block_raises:
                        raise BlockExc("block")
            else:
                await nested(entries, 0, block_raises)
            return ("ok", None)
        except BaseException as ex:  # noqa
            if type(ex).__module__.startswith(("crosshair", "z3")):
                raise
            return ("exc", lab(ex))

    r = D.call(prog())
    return (r[1] if r[0] == "ok" else ("escaped", r[1])), log


def _pre(n, k0, b0, k1, b1, k2, b2, failing):
    ok = 0 <= n <= P("N", 2) and -1 <= failing < (n if P("failing", False) else 0)
    for i, (k, b) in enumerate(((k0, b0), (k1, b1), (k2, b2))):
        if i < P("N", 2):
            ok = ok and 0 <= k < NK and 0 <= b < NB
        else:
            ok = ok and k == 0 and b == 0
    fx = P("fix", {})
    vals = {"n": n, "k0": k0, "k1": k1, "k2": k2, "b0": b0, "b1": b1, "b2": b2, "failing": failing}
    for nm in fx:
        ok = ok and vals[nm] == fx[nm]
    if P("b0r") is not None:
        ok = ok and P("b0r")[0] <= b0 <= P("b0r")[1]
    return ok


def h_stack(n: int, k0: int, b0: int, k1: int, b1: int, k2: int, b2: int, block_raises: bool, failing: int):
    """
    pre: _pre(n, k0, b0, k1, b1, k2, b2, failing)
    post: _[0]
    post: not _[1]
    """
    reset_run()
    specs = []
    for i, (k, b) in enumerate(((k0, b0), (k1, b1), (k2, b2))):
        if i < n:
            kk = 0
            for v in range(NK):
                if k == v:
                    kk = v
            bb = 0
            for v in range(NB):
                if b == v:
                    bb = v
            specs.append((kk, bb))
    W = World("a")
    D = Driver(W, sync_only=True)
    ok = True
    try:
        oa, la = _run(D, "a", specs, block_raises, failing)
        os_, ls = _run(D, "s", specs, block_raises, failing)
        on, ln = (os_, ls)
        if failing < 0:
            on, ln = _run(D, "n", specs, block_raises, failing)
    except Suspended:
        return finish(fail("ExitStack:suspended-with-nonsuspending-arguments"), False)
    if la != ls:
        ok = fail("ExitStack:exit-log-differs-from-AsyncExitStack", (specs, la, ls)) and ok
    if oa != os_:
        ok = fail("ExitStack:outcome-differs-from-AsyncExitStack", (specs, oa, os_)) and ok
    if failing < 0:
        if la != ln:
            ok = fail("ExitStack:exit-log-differs-from-nested-with", (specs, la, ln)) and ok
        if oa != on:
            ok = fail("ExitStack:outcome-differs-from-nested-with", (specs, oa, on)) and ok
    for v in W.viol:
        ok = fail("ExitStack:%s" % v) and ok
    return finish(ok, len(specs) >= 2 or P("N", 2) < 2, ("stack", tuple(specs), bool(block_raises), failing))


# ---- histories: every registered exit runs exactly once overall -------------------------------
OPS = ("register", "aclose", "pop_all", "with-block", "aclose-popped", "with-block-raising", "register-raising-exit", "aclose-inside-except")


def _pre_hist(o0, o1, o2, o3, o4, o5):
    L = P("L", 4)
    ok = True
    for i, o in enumerate((o0, o1, o2, o3, o4, o5)):
        if i < L:
            ok = ok and 0 <= o < len(OPS)
        else:
            ok = ok and o == 0
    if P("o0") is not None:
        ok = ok and o0 == P("o0")
    return ok


def h_hist(o0: int, o1: int, o2: int, o3: int, o4: int, o5: int):
    """
    pre: _pre_hist(o0, o1, o2, o3, o4, o5)
    post: _[0]
    post: not _[1]
    """
    reset_run()
    L = P("L", 4)
    W = World("a")
    D = Driver(W, sync_only=True)
    log = []
    ok = True
    trace = []
    kinds = (0, 4, 2, 1, 5, 3)
    try:
        stack = A.ExitStack()
        popped = []
        model_cur, model_popped = [], []
        nreg = 0
        ops = [o0, o1, o2, o3, o4, o5]
        for i in range(L):
            op = 0
            for v in range(len(OPS)):
                if ops[i] == v:
                    op = v
            trace.append(OPS[op])
            before = len([e for e in log if e[0] == "exit"])
            expect = []
            if op == 0 or op == 6:
                e = Entry(nreg, kinds[nreg % len(kinds)], 2 if op == 6 else 0, log)
                D.run(reg_async(stack, e))
                model_cur.append(nreg)
                nreg += 1
            elif op == 1 or op == 7:
                n0 = len(log)
                if op == 7:

                    async def closing_in_handler():
                        try:
                            raise KeyError("unrelated, being handled by the caller")
                        except KeyError:
                            await stack.aclose()

                    D.call(closing_in_handler())
                else:
                    D.call(stack.aclose())
                for ev in log[n0:]:
                    # aclose() unwinds without an exception: the first exit sees none (later
                    # ones only what an earlier exit raised)
                    if ev[0] == "exit" and ev[2] not in (None, "-") and not str(ev[2]).startswith("new-"):
                        ok = fail("ExitStack:aclose-passed-a-foreign-exception-to-an-exit", (trace, ev)) and ok
                expect, model_cur = list(reversed(model_cur)), []
            elif op == 2:
                popped.append(stack.pop_all())
                model_popped.append(model_cur)
                model_cur = []
            elif op in (3, 5):

                async def blk(raising):
                    try:
                        async with stack:
                            if raising:
                                raise BlockExc("block")
                    except BlockExc:
                        pass

                D.call(blk(op == 5))
                expect, model_cur = list(reversed(model_cur)), []
            else:
                if popped:
                    D.call(popped[-1].aclose())
                    expect = list(reversed(model_popped[-1]))
                    model_popped[-1] = []
            ran = [e[1] for e in log if e[0] == "exit"][before:]
            if ran != expect:
                ok = fail("ExitStack:history-exits-wrong(%s)" % OPS[op], (trace, ran, expect)) and ok
                break
        # finally everything is closed: each registered exit ran exactly once overall
        D.call(stack.aclose())
        for p in popped:
            D.call(p.aclose())
        runs = {}
        for e in log:
            if e[0] == "exit":
                runs[e[1]] = runs.get(e[1], 0) + 1
        for i in range(nreg):
            if runs.get(i, 0) != 1:
                ok = fail("ExitStack:exit-ran-%d-times" % runs.get(i, 0), (trace, i)) and ok
                break
    except Suspended:
        return finish(fail("ExitStack:suspended-with-nonsuspending-arguments"), False)
    return finish(ok, nreg >= 1 and len(trace) >= 2, ("hist", tuple(trace)))


def _grid_stack():
    import random

    rnd = random.Random(43)
    N = P("N", 2)
    fx = P("fix", {})
    out = []
    for _ in range(400):
        n = fx.get("n", rnd.randint(0, N))
        ks = [fx.get("k%d" % i, rnd.randrange(NK)) if i < N else 0 for i in range(3)]
        bs = [fx.get("b%d" % i, rnd.randrange(NB)) if i < N else 0 for i in range(3)]
        if P("b0r") is not None:
            bs[0] = rnd.randint(P("b0r")[0], P("b0r")[1])
        failing = fx.get("failing", rnd.randint(-1, n - 1) if (P("failing", False) and n) else -1)
        out.append((n, ks[0], bs[0], ks[1], bs[1], ks[2], bs[2], rnd.random() < 0.5, failing))
    return out


GRID = {
    "h_stack": _grid_stack,
    "h_hist": lambda: [tuple([a, b, c, d, 0, 0][: 6]) for a in range(8) for b in range(8) for c in range(8) for d in (0, 1, 4, 7) if P("o0") in (None, a)] if P("L", 4) >= 4 else [(a, b, c, 0, 0, 0) for a in range(8) for b in range(8) for c in range(8)],
}


def jobs(tier):
    q = tier == "quick"
    T = 400 if q else 900
    J = []

    def add(fn, **part):
        J.append({"module": "c14", "fn": fn, "part": part, "timeout": T})

    add("h_stack", N=1)
    for k0 in range(NK):
        add("h_stack", N=2, fix={"n": 2, "k0": k0})
    for fi in (0, 1):
        for kf in (0, 1):  # the entry whose enter fails is an async / a sync context manager
            for b0 in range(0, NB, 2):  # split by the first entry's behaviour (pairs)
                add("h_stack", N=2, failing=True, fix={"n": 2, "failing": fi, "k%d" % fi: kf}, b0r=(b0, b0 + 1))
    if not q:
        REP = (0, 1, 2, 4, 8)  # three entries: five representative kinds, every combination, all behaviours
        for k0 in REP:
            for k1 in REP:
                for k2 in REP:
                    add("h_stack", N=3, fix={"n": 3, "k0": k0, "k1": k1, "k2": k2})
    for o0 in range(len(OPS)):
        add("h_hist", L=(4 if q else 5), o0=o0)
    return J


LEVEL = "other"
BOUNDS = {
    "quick": "stacks of 0..2 entries, each {entered async CM, entered sync CM, pushed async fn, pushed sync fn, sync callback with args, async callback with args, pushed (not entered) async CM, pushed sync CM, pushed callable object returning a coroutine, pushed partial(async def), callback object returning a coroutine, pushed function returning a non-coroutine awaitable, callback with keyword arguments only} x {falsy, truthy, raise new, raise new only when an exception is in flight, raise a new BaseException, raise a new exception object that is falsy}, block normal/raising, one entry whose enter fails; oracles: contextlib.AsyncExitStack and recursively built nested async-with; histories of 4 operations over {register, register an exit that raises, aclose, aclose from inside an except block, pop_all, with-block, with-block raising, aclose popped stack} followed by closing everything",
    "thorough": "stacks of 3 entries over five representative kinds (entered async/sync CM, pushed async fn, sync callback, pushed callable object) x all behaviours, histories of 5 operations",
}
OUTSIDE = ["__context__/__cause__ chains", "4 entries", "exits that suspend (covered by C17/C18)"]
NONTRIVIAL_RULE = ">=2 entries on the stack (histories: >=1 registration and >=2 operations)"

MANIFEST = {
    "text": 'Stacks of entries (11 kinds x 5 behaviours, symbolic) compared with contextlib.AsyncExitStack and with nested async-with built by recursion: exit log with the in-flight exception each exit received and the outcome; failing enters; histories of register/aclose/pop_all/with-block: every exit exactly once overall. Nothing is claimed outside the bounds listed in the evidence file.',
    "note": 'Trusted: CrossHair 0.0.110 (with short-circuiting off and a refined callable() model), z3 5.1.0, the harness oracles. __context__ chains are not compared.',
}
