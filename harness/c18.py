"""C18 — cancellation anywhere leaves no leaked source, held lock or poisoned cache."""
import asyncstdlib as A

from .world import P, World, Driver, Item, Cancel, Lock, Suspend, fail, finish, Suspended, reset_run
from .tools import Opts
from .gen import op_of, pre_gen, fix_flags, mkdata, start_async, n_items
from .c04 import _unreleased

PROPERTY = "C18"
LEVEL = "fault_enumeration"


def h_cancel(k0: int, k1: int, k2: int, k3: int, k4: int, k5: int, k6: int, k7: int, n0: int, n1: int, n2: int, p0: int, p1: int, p2: int, b0: bool, b1: bool, b2: bool, x: int, y: int, z: int):
    """
    pre: pre_gen(n0, n1, n2, p0, p1, p2, x, y, z)
    pre: fix_flags(b0, b1, b2)
    post: _[0]
    post: not _[1]
    """
    reset_run()
    op, kind = op_of(P("op"))
    name = op.name
    d = mkdata([k0, k1, k2, k3, k4, k5, k6, k7], [n0, n1, n2, 0], [p0, p1, p2], [b0, b1, b2])
    o = Opts(fl=(P("fls") or [P("fl", "agen")] * 4), ffl=P("ffl", "adef"))
    Wa = World("a", susp=1)
    Wa.close_susp = P("close_susp", 0)
    Wa.aclose_ret = P("aclose_ret")
    if P("cancel_kind") == "asyncio":
        import asyncio

        cancel = asyncio.CancelledError("cancelled")  # what a real asyncio task gets
    else:
        cancel = Cancel("cancelled")
    D = Driver(Wa, cancel_at=x, cancel_exc=cancel)
    ok = True
    from .c17 import no_loop

    with no_loop(Wa):
        return _h_cancel_body(op, kind, name, d, o, Wa, D, cancel, ok)


def _h_cancel_body(op, kind, name, d, o, Wa, D, cancel, ok):
    st = start_async(op, kind, Wa, d, o)
    if st[0] == "exc":
        return finish(True, False, (name, "construction-raised"))
    lazy_outer = name == "chain_from"
    if kind == "agg":
        r = D.call(st[1])
        if D.cancelled:
            if not (r[0] == "exc" and r[1] is cancel):
                ok = fail("%s:cancellation-not-propagated" % name, r) and ok
            un = _unreleased(Wa)
            if un:
                ok = fail("%s:source-not-released-after-cancel" % name, un) and ok
        for v in Wa.viol:
            ok = fail("%s:%s" % (name, v)) and ok
        return finish(ok, D.cancelled, (name, len(d.srcs[0]), D.nsusp if D.cancelled else -1))
    ait = st[1]
    cap = n_items(d) + 2 if name != "cycle" else 2 * n_items(d) + 2
    got, end = D.take(ait, cap)
    if D.cancelled:
        if end is not cancel:
            ok = fail("%s:cancellation-not-propagated" % name, end) and ok
        # the owner closes the iterator it was advancing
        D2 = Driver(Wa)
        rc = D2.aclose(ait)
        if rc[0] == "exc":
            ok = fail("%s:aclose-after-cancel-raised-%s" % (name, type(rc[1]).__name__)) and ok
        un = _unreleased(Wa, lazy_outer)
        if un:
            if any(st_.close_interrupted for st_ in Wa.srcs):
                # the cancellation arrived while the tool was closing one source: the
                # remaining sources of a multi-source tool are then never closed
                ok = fail("multi-source-tool:later-sources-left-open-when-cancelled-inside-a-source-close", (name, un)) and ok
            else:
                ok = fail("%s:source-not-released-after-cancel" % name, un) and ok
    for v in Wa.viol:
        ok = fail("%s:%s" % (name, v)) and ok
    return finish(ok, D.cancelled, (name, tuple(len(s) for s in d.srcs), len(got), D.nsusp if D.cancelled else -1))


# ---- tee with lock ---------------------------------------------------------------
def h_cancel_tee(n: int, j: int, x: int, which: int, probe_other: bool):
    """
    pre: 0 <= n <= P("N", 2) and 0 <= j <= 2 and 1 <= x <= 8 and 0 <= which <= 1
    post: _[0]
    post: not _[1]
    """
    reset_run()
    items = [Item(0, "0.%d" % i) for i in range(n)]
    Wa = World("a", susp=1)
    lock = Lock(Wa, enter_susp=1, exit_susp=1)
    cancel = Cancel("cancelled")
    src = Wa.source(items, P("fl", "agen"))
    t = A.tee(src, 2, lock=lock)
    D0 = Driver(Wa)
    a, b = (t[0], t[1]) if which == 0 else (t[1], t[0])
    got0, _e = D0.take(b, j)  # the other child is ahead by j items
    D = Driver(Wa, cancel_at=x, cancel_exc=cancel)
    got, end = D.take(a, len(items) + 1)
    ok = True
    if D.cancelled:
        if end is not cancel:
            ok = fail("tee:cancellation-not-propagated", end) and ok
        if lock.held:
            ok = fail("tee:lock-held-after-cancel") and ok
        # the remaining child is not disturbed: it still gets every item in order
        # (unless the cancellation was delivered inside an async-generator source, which
        # finalises that generator: the source's own behaviour, not tee's)
        st0 = Wa.srcs[0]
        src_killed = st0.flavour == "agen" and st0.obj.ag_frame is None and not st0.ended
        if probe_other:
            rest, e2 = D0.take(b, len(items) + 1)
        else:
            # the owner closes the tee right away (the other child may never have been advanced)
            rest, e2 = list(items[len(got0):]), "stop"
        allb = got0 + rest
        if not src_killed and (len(allb) != len(items) or any(u is not v for u, v in zip(allb, items)) or e2 != "stop"):
            ok = fail("tee:other-child-disturbed-by-cancel", (allb, e2)) and ok
        if src_killed and (e2 != "stop" or any(u is not v for u, v in zip(allb, items))):
            ok = fail("tee:other-child-broken-after-source-died", (allb, e2)) and ok
        r = D0.call(t.aclose())
        if r[0] == "exc":
            ok = fail("tee:aclose-after-cancel-raised") and ok
        if not Wa.srcs[0].is_released():
            ok = fail("tee:source-not-released-after-cancel") and ok
        if lock.held:
            ok = fail("tee:lock-held-after-close") and ok
    for v in Wa.viol:
        ok = fail("tee:%s" % v) and ok
    return finish(ok, D.cancelled, ("tee", len(items), len(got0), len(got), D.nsusp if D.cancelled else -1))


# ---- groupby ------------------------------------------------------------------------------
def h_cancel_groupby(n: int, k0: int, k1: int, k2: int, steps: int, gsteps: int, x: int):
    """
    pre: 0 <= n <= 3 and 1 <= steps <= 3 and 0 <= gsteps <= 2 and 1 <= x <= 10
    post: _[0]
    post: not _[1]
    """
    reset_run()
    keys = [k0, k1, k2]
    items = []
    for j in range(n):
        items.append(Item(keys[j], "0.%d" % j))
    Wa = World("a", susp=1)
    cancel = Cancel("cancelled")
    D = Driver(Wa, cancel_at=x, cancel_exc=cancel)
    src = Wa.source(items, P("fl", "agen"))
    st = Wa.srcs[0]
    g = A.groupby(src, key=Wa.fn("key", lambda it: it.key, P("ffl", "adef")))
    ok = True
    grp = None
    end = None
    for i in range(steps):
        got, end = D.take(g, 1)
        if got:
            grp = got[0][1]
        if end is not None:
            break
    in_group = False
    if grp is not None and end is None:
        in_group = True
        _g, end = D.take(grp, gsteps)
    if D.cancelled:
        if end is not cancel:
            ok = fail("groupby:cancellation-not-propagated", end) and ok
        D2 = Driver(Wa)
        # the owner closes the iterator it was advancing: the group, or the groupby itself
        r = D2.call((grp if in_group else g).aclose())
        if r[0] == "exc":
            ok = fail("groupby:aclose-after-cancel-raised-%s" % type(r[1]).__name__) and ok
        if not st.is_released():
            ok = fail("groupby:source-not-released-after-cancel") and ok
    for v in Wa.viol:
        ok = fail("groupby:%s" % v) and ok
    return finish(ok, D.cancelled, ("groupby", len(items), D.nsusp if D.cancelled else -1))


# ---- lru_cache ----------------------------------------------------------------------
def h_cancel_lru(x: int, ms: int, pre: int):
    """
    pre: 1 <= x <= 3 and 0 <= ms <= 2 and 0 <= pre <= 2
    post: _[0]
    post: not _[1]
    """
    reset_run()
    Wa = World("a")
    calls = []

    async def f(k):
        calls.append(k)
        await Suspend(Wa)
        await Suspend(Wa)
        return ("v", k)

    maxsize = None
    if ms == 1:
        maxsize = 1
    elif ms == 2:
        maxsize = 2
    cf = A.lru_cache(maxsize=maxsize)(f)
    D0 = Driver(Wa)
    for i in range(pre):
        D0.run(cf(10 + i))
    info0 = cf.cache_info()
    cancel = Cancel("c")
    D = Driver(Wa, cancel_at=x, cancel_exc=cancel)
    r = D.call(cf(1))
    ok = True
    if D.cancelled:
        if not (r[0] == "exc" and r[1] is cancel):
            ok = fail("lru_cache:cancellation-not-propagated", r) and ok
        info = cf.cache_info()
        if info.currsize != info0.currsize:
            ok = fail("lru_cache:partial-entry-after-cancel", (info0, info)) and ok
        n0 = len(calls)
        r2 = D0.call(cf(1))
        if not (r2[0] == "ok" and r2[1] == ("v", 1)) or len(calls) != n0 + 1:
            ok = fail("lru_cache:unusable-after-cancel", r2) and ok
        r3 = D0.call(cf(1))
        if not (r3[0] == "ok" and r3[1] == ("v", 1)) or len(calls) != n0 + 1:
            ok = fail("lru_cache:not-caching-after-cancel", r3) and ok
    return finish(ok, D.cancelled, ("lru", ms, pre, D.nsusp if D.cancelled else -1))


# ---- cached_property with lock ----------------------------------------------------------
def h_cancel_cprop(x: int, withlock: bool):
    """
    pre: 1 <= x <= 5
    post: _[0]
    post: not _[1]
    """
    reset_run()
    Wa = World("a")
    runs = []
    locks = []

    class LockT(Lock):
        def __init__(self):
            Lock.__init__(self, Wa, enter_susp=1, exit_susp=1)
            locks.append(self)

    rets = []

    async def getter(self):
        runs.append(1)
        await Suspend(Wa)
        await Suspend(Wa)
        v = ("val", len(runs))
        rets.append(v)
        return v

    if withlock:

        class Res:
            data = A.cached_property(LockT)(getter)

        Res.data.__set_name__(Res, "data")
    else:

        class Res:
            data = A.cached_property(getter)

        Res.data.__set_name__(Res, "data")
    r0 = Res()
    cancel = Cancel("c")
    D = Driver(Wa, cancel_at=x, cancel_exc=cancel)
    r = D.call(_await(r0.data))
    ok = True
    if D.cancelled:
        if not (r[0] == "exc" and r[1] is cancel):
            ok = fail("cached_property:cancellation-not-propagated", r) and ok
        for l in locks:
            if l.held:
                ok = fail("cached_property:lock-held-after-cancel") and ok
        D0 = Driver(Wa)
        nruns = len(runs)
        r2 = D0.call(_await(r0.data))
        if r2[0] != "ok":
            ok = fail("cached_property:unusable-after-cancel", r2) and ok
        elif not any(r2[1] is v for v in rets):
            ok = fail("cached_property:served-a-value-no-getter-returned", r2) and ok
        r3 = D0.call(_await(r0.data))
        if r3[0] != "ok" or (r2[0] == "ok" and r3[1] is not r2[1]):
            ok = fail("cached_property:value-not-cached-after-recovery", (r2, r3)) and ok
    return finish(ok, D.cancelled, ("cprop", bool(withlock), D.nsusp if D.cancelled else -1))


async def _await(x):
    return await x


# ---- ExitStack ------------------------------------------------------------------------
def h_cancel_stack(x: int, kinds: int):
    """
    pre: 1 <= x <= 6 and 0 <= kinds <= 3
    post: _[0]
    post: not _[1]
    """
    reset_run()
    Wa = World("a")
    log = []

    class ACM:
        def __init__(self, name):
            self.name = name

        async def __aenter__(self):
            await Suspend(Wa)
            log.append(("enter", self.name))
            return self

        async def __aexit__(self, et, ev, tb):
            log.append(("exit", self.name, ev))
            await Suspend(Wa)
            return False

    async def cb(name):
        log.append(("exit", name, None))
        await Suspend(Wa)

    async def pushed(et, ev, tb):
        log.append(("exit", "p", ev))
        await Suspend(Wa)
        return False

    reg = []

    async def block():
        async with A.ExitStack() as stack:
            await stack.enter_context(ACM("a"))
            reg.append("a")
            if kinds & 1:
                stack.callback(cb, "c")
                reg.append("c")
            if kinds & 2:
                stack.push(pushed)
                reg.append("p")
            await stack.enter_context(ACM("b"))
            reg.append("b")
            await Suspend(Wa)
            log.append(("body-done",))

    cancel = Cancel("c")
    D = Driver(Wa, cancel_at=x, cancel_exc=cancel)
    r = D.call(block())
    ok = True
    if D.cancelled:
        if not (r[0] == "exc" and r[1] is cancel):
            ok = fail("ExitStack:cancellation-not-propagated", r) and ok
        exits = [e for e in log if e[0] == "exit"]
        names = [e[1] for e in exits]
        # every registered exit ran exactly once, in reverse order of registration
        if names != list(reversed(reg)):
            ok = fail("ExitStack:exits-after-cancel-wrong", (names, reg)) and ok
        seen_cancel = ("body-done",) not in log  # cancelled before the unwinding started
        for e in exits:
            if e[1] == "c":
                continue
            if e[2] is cancel:
                seen_cancel = True
            elif seen_cancel or e[2] is not None:
                ok = fail("ExitStack:exit-did-not-receive-the-cancellation", e) and ok
    return finish(ok, D.cancelled, ("stack", kinds, D.nsusp if D.cancelled else -1))


# ---- scoped_iter ------------------------------------------------------------------------
def h_cancel_scoped(n: int, x: int, nested: bool):
    """
    pre: 0 <= n <= 2 and 1 <= x <= 6
    post: _[0]
    post: not _[1]
    """
    reset_run()
    items = [Item(0, "0.%d" % i) for i in range(n)]
    Wa = World("a", susp=1)
    src = Wa.source(items, P("fl", "agen"))
    st = Wa.srcs[0]
    seen = []

    async def block():
        async with A.scoped_iter(src) as it:
            if nested:
                async with A.scoped_iter(it) as it2:
                    async for v in A.islice(it2, 1):
                        seen.append(v)
                        await Suspend(Wa)
                if st.closed:
                    Wa.bad("scoped_iter:inner-scope-closed-the-source")
            async for v in it:
                seen.append(v)
                await Suspend(Wa)

    cancel = Cancel("c")
    D = Driver(Wa, cancel_at=x, cancel_exc=cancel)
    r = D.call(block())
    ok = True
    if D.cancelled:
        if not (r[0] == "exc" and r[1] is cancel):
            ok = fail("scoped_iter:cancellation-not-propagated", r) and ok
        if not st.is_released():
            ok = fail("scoped_iter:source-not-released-after-cancel") and ok
    if st.closed > 1:
        ok = fail("scoped_iter:source-closed-twice") and ok
    for v in Wa.viol:
        ok = fail(v) and ok
    return finish(ok, D.cancelled, ("scoped", len(items), bool(nested), D.nsusp if D.cancelled else -1))


def _grid_cancel():
    import random

    rnd = random.Random(19)
    N, S = P("N", 2), P("S", 1)
    X = P("X", (0, 0))
    out = []
    for _ in range(100):
        ns = [rnd.randint(0, N) if i < S else 0 for i in range(3)]
        if P("L") is not None:
            ns = list(P("L")) + [0] * (3 - len(P("L")))
        b = [P("b%d" % i) if P("b%d" % i) is not None else rnd.random() < 0.5 for i in range(3)]
        p0 = rnd.randint(1, N + 1)
        if P("op") in ("nlargest", "nsmallest", "enumerate"):
            p0 = rnd.randint(-1, 1)
        out.append(tuple([rnd.choice([-1, 0, 1, 1, 2]) for _ in range(8)] + ns + [p0, rnd.randint(0, N + 2), rnd.randint(1, 3)] + b + [rnd.randint(X[0], X[1]), 0, 0]))
    return out


GRID = {
    "h_cancel": _grid_cancel,
    "h_cancel_groupby": lambda: [(n, 1, 1, 2, s, g, x) for n in range(4) for s in (1, 2, 3) for g in (0, 1) for x in range(1, 9)],
    "h_cancel_tee": lambda: [(n, j, x, w, pr) for n in range(3) for j in range(3) for x in range(1, 9) for w in (0, 1) for pr in (False, True)],
    "h_cancel_lru": lambda: [(x, ms, pre) for x in (1, 2, 3) for ms in range(3) for pre in range(3)],
    "h_cancel_cprop": lambda: [(x, w) for x in range(1, 6) for w in (False, True)],
    "h_cancel_stack": lambda: [(x, k) for x in range(1, 7) for k in range(4)],
    "h_cancel_scoped": lambda: [(n, x, ne) for n in range(3) for x in range(1, 7) for ne in (False, True)],
}

TOOLS1 = ["filter", "filter_none", "filterfalse", "takewhile", "dropwhile", "pairwise", "cycle", "accumulate_f", "accumulate_f_init", "enumerate", "batched", "starmap", "islice", "iter_sentinel"]
TOOLS2 = ["zip", "zip_longest", "map", "chain", "chain_from", "compress", "merge"]
AGGS1 = ["all", "any", "min", "max", "sorted", "nlargest", "nsmallest", "reduce", "list", "tuple"]


def jobs(tier):
    q = tier == "quick"
    T = 300 if q else 900
    J = []

    def add(fn, **part):
        part.setdefault("valid_only", True)
        J.append({"module": "c18", "fn": fn, "part": part, "timeout": T})

    N1 = 2 if q else 3
    for fl, ffl in (("agen", "adef"), ("acls", "obj")):
        for op in TOOLS1:
            kw = {"form": 2, "PR": 2, "b0": False, "b1": False} if op == "islice" else {}
            add("h_cancel", op=op, S=1, N=N1, X=(1, 2 * N1 + 2), fl=fl, ffl=ffl, **kw)
        for op in TOOLS2:
            extra = [{}]
            if op == "merge":
                extra = [{"b0": False}, {"b0": True}]
            for kw in extra:
                add("h_cancel", op=op, S=2, N=2, X=(1, 9), fl=fl, ffl=ffl, **kw)
        for op in ("zip", "zip_longest", "chain", "merge"):
            add("h_cancel", op=op, S=3, N=1, X=(1, 7), fl=fl, ffl=ffl)
        for op in AGGS1:
            add("h_cancel", op=op, S=1, N=N1, X=(1, 2 * N1 + 2), fl=fl, ffl=ffl)
        for op in ("filter", "enumerate", "islice", "accumulate_f", "zip", "chain", "merge", "list", "sum" if False else "max", "sorted", "reduce", "nlargest", "map", "map1", "starmap", "takewhile", "compress", "zip_longest"):
            kw = {"form": 2, "PR": 2, "b0": False, "b1": False} if op == "islice" else {}
            S_ = 2 if op in ("zip", "chain", "merge", "map", "compress", "zip_longest") else 1
            if op == "map1":
                op = "map"
            add("h_cancel", op=op, S=S_, N=1, X=(1, 6), fl=fl, ffl=ffl, cancel_kind="asyncio", close_susp=1, **kw)
            if fl == "acls":
                add("h_cancel", op=op, S=S_, N=1, X=(1, 5), fl=fl, ffl=ffl, aclose_ret=True, **kw)
        add("h_cancel_tee", N=2, fl=fl)
        add("h_cancel_groupby", fl=fl, ffl=ffl)
        # an iterator without aclose in front of closeable ones
        for op in ("zip", "zip_longest", "chain", "merge"):
            add("h_cancel", op=op, S=3, N=1, X=(1, 7), fls=["bare", fl, fl, fl], ffl=ffl)
            add("h_cancel", op=op, S=2, N=2, X=(1, 9), fls=[fl, "bare", fl, fl], ffl=ffl)
        for b0 in (False, True):
            for L in ([0, 2, 1], [0, 1, 2], [2, 0, 1]):
                add("h_cancel", op="merge", S=3, N=2, L=L, X=(1, 9), fl=fl, ffl=ffl, b0=b0, b1=False)
        add("h_cancel_scoped", fl=fl)
    add("h_cancel_scoped", fl="aitb")
    for fl, ffl in (("agen", "adef"), ("acls", "obj")):
        pass
    add("h_cancel_lru")
    add("h_cancel_cprop")
    add("h_cancel_stack")
    return J


BOUNDS = {
    "quick": "(also with asyncio.CancelledError as the thrown exception while asyncio loop accessors raise and source closes suspend; and with sources whose aclose() returns a truthy value) every source pull, async callable, lock acquire/release and context manager suspends once; Cancel(BaseException) thrown at symbolic suspension k=1..K (K covers every suspension of the execution); N<=2 items per source, S<=3; sources async generators / class-based with aclose; groupby with async key (1..3 advances, 0..2 group items; the owner then closes the iterator it was advancing - the group or the groupby); tee with lock (other child ahead by 0..2), lru_cache (maxsize None/1/2, 0..2 earlier entries), cached_property with and without lock, ExitStack with 2 context managers + callback + pushed exit, scoped_iter (plain and nested)",
    "thorough": "N<=3",
}
OUTSIDE = ["more than one cancellation", "cancellation while the owner's own aclose() is running", "lengths above the bound"]
NONTRIVIAL_RULE = "the cancellation was actually delivered at a suspension point on the path"

MANIFEST = {
    "text": 'Fault enumeration over cancellation points: every source pull, async callable, lock and context manager suspends once; a BaseException is thrown in at symbolic suspension k; that object must propagate; after the owner closes the iterator every source is released, locks are free, registered exits ran with that exception, caches hold no partial entry and still work. Nothing is claimed outside the bounds listed in the evidence file.',
    "note": 'Trusted: CrossHair 0.0.110 (with short-circuiting off and a refined callable() model), z3 5.1.0, the harness oracles. One cancellation per run.',
}
