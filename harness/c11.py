"""C11 — lru_cache stays correct under overlapping calls and cancellation."""
import asyncstdlib as A

from .world import P, World, Lock, Suspend, Cancel, Task, Choices, schedule, Driver, fail, finish, reset_run

PROPERTY = "C11"
LEVEL = "model_checking"
MS = {"none": None, "one": 1, "two": 2}


def _pre(a, b, k, x):
    # a, b: key selectors of the calls; k: cancellation point; x: position of the clear/discard op
    ok = 0 <= a < P("KEYSPACE", 4) and 0 <= b < P("KEYSPACE", 4) and 0 <= k <= P("K", 0) and 0 <= x <= P("X", 0)
    return ok


def _body(cs, a, b, k, x):
    reset_run()
    NT = P("T", 2)  # tasks
    NC = P("CALLS", 2)  # calls per task
    NK = P("KEYS", 2)
    fsusp = P("FSUSP", 1)
    maxsize = MS[P("ms", "two")]
    extra = P("extra", None)  # None / "clear" / "discard"
    W = World("a")
    invocations = []
    produced = {}

    # key k is a call pattern: patterns 0 and 1 share their only positional argument
    PATS = [((1,), {}), ((1,), {"scale": 10}), ((2,), {})]
    if P("pats") == "collide":  # distinct patterns whose tuples have equal hashes
        PATS = [((-1, 0), {}), ((-2, 0), {}), ((2,), {})]

    failmode = [False]

    async def f(*a, **kw):
        if failmode[0]:
            raise ValueError("failing call")
        key = 0
        for i, (pa, pk) in enumerate(PATS):
            if pa == a and pk == kw:
                key = i
        invocations.append(key)
        for _ in range(fsusp):
            await Suspend(W)
        val = ("val", key, len(invocations))
        if key == 1 and P("none_value", False):
            val = None  # a legitimate result
        produced.setdefault(key, []).append(val)
        return val

    cached = A.lru_cache(maxsize=maxsize)(f)

    class _CF:
        def __call__(self, key):
            pa, pk = PATS[key]
            return cached(*pa, **pk)

        def cache_info(self):
            return cached.cache_info()

        def cache_clear(self):
            return cached.cache_clear()

        def cache_discard(self, key):
            pa, pk = PATS[key]
            return cached.cache_discard(*pa, **pk)

    cf = _CF()
    # key plan: digits of a and b in base NK give the key of each call
    plan = []
    aa, bb = a, b
    for t in range(NT):
        row = []
        for c in range(NC):
            sel = aa if t == 0 else (bb if t == 1 else (aa + bb + t + c))
            kk = 0
            for v in range(NK):
                if (sel + c * (t + 1)) % NK == v:
                    kk = v
            row.append(kk)
        plan.append(row)
    started = [0]
    finished_ok = [0]
    results = []
    viol = []
    cleared = [False]

    def check_invariants(where):
        info = cf.cache_info()
        if maxsize is not None and info.currsize > maxsize:
            viol.append("lru_cache:currsize-exceeds-maxsize(%s)" % where)
        if not cleared[0]:
            if info.hits + info.misses != started[0]:
                viol.append("lru_cache:hits-plus-misses-differs-from-calls(%s)" % where)
            if info.misses != len(invocations):
                viol.append("lru_cache:misses-differs-from-invocations(%s)" % where)

    async def caller(t):
        for c in range(NC):
            key = plan[t][c]
            if extra is not None and t == 0 and c == x:
                if extra == "clear":
                    cf.cache_clear()
                    cleared[0] = True
                else:
                    cf.cache_discard(key)
            started[0] += 1
            # a hit increments `hits`, a miss `misses`, synchronously at the call
            aw = cf(key)
            val = await aw
            finished_ok[0] += 1
            results.append((t, key, val))
            check_invariants("after-call")

    cancel = Cancel("c")
    tasks = [Task("t%d" % t, caller(t), cancel_at=(k if (t == NT - 1 and P("K", 0)) else 0), cancel_exc=cancel) for t in range(NT)]
    choices = Choices(cs)

    def on_step(task):
        check_invariants("step")

    schedule(W, tasks, choices, on_step=on_step)
    ok = True
    cancelled = False
    for tk in tasks:
        if tk.state == "failed":
            if tk.value is cancel:
                cancelled = True
            else:
                ok = fail("lru_cache:caller-failed-%s" % type(tk.value).__name__, (choices.trace, tk.value)) and ok
    for v in viol[:1]:
        ok = fail(v, choices.trace) and ok
    for t, key, val in results:
        if not any(val is p for p in produced.get(key, [])):
            ok = fail("lru_cache:value-not-produced-for-an-equal-key", (choices.trace, key, val)) and ok
    # quiescence: the cache behaves like a fresh sequential cache from its current contents
    D = Driver(W)
    info = cf.cache_info()
    if maxsize is not None and info.currsize > maxsize:
        ok = fail("lru_cache:currsize-exceeds-maxsize(quiescent)") and ok
    for key in range(NK):
        n0 = len(invocations)
        i0 = cf.cache_info()
        r1 = D.call(cf(key))
        i1 = cf.cache_info()
        hit = len(invocations) == n0
        if r1[0] != "ok":
            ok = fail("lru_cache:unusable-at-quiescence", r1) and ok
            break
        if hit and (i1.hits != i0.hits + 1 or i1.misses != i0.misses):
            ok = fail("lru_cache:hit-miscounted-at-quiescence") and ok
        if not hit and (i1.misses != i0.misses + 1 or i1.hits != i0.hits):
            ok = fail("lru_cache:miss-miscounted-at-quiescence") and ok
        if P("none_value", False) and key == 1 and not hit and any(r[1] == 1 for r in results):
            # the value None was produced and stored: it must be served like any other value
            if maxsize is None:
                ok = fail("lru_cache:stored-None-result-not-served-as-a-hit", (key,)) and ok
        if hit and not any(r1[1] is p for p in produced.get(key, [])):
            ok = fail("lru_cache:cached-value-never-produced", (key, r1)) and ok
        r2 = D.call(cf(key))
        if maxsize is not None and r2[0] == "ok" and r2[1] is not r1[1]:
            ok = fail("lru_cache:second-sequential-call-not-a-hit", (key,)) and ok
        if maxsize is None and (r2[0] != "ok" or r2[1] is not r1[1]):
            ok = fail("lru_cache:second-sequential-call-not-a-hit", (key,)) and ok
    if maxsize == 2:
        # least-recently-used order at quiescence: 0, 1, hit 0, new key -> 1 is evicted, 0 stays
        cf.cache_clear()
        D.call(cf(0))
        D.call(cf(1))
        D.call(cf(0))
        D.call(cf(2))
        n0 = len(invocations)
        D.call(cf(0))
        if len(invocations) != n0:
            ok = fail("lru_cache:a-hit-does-not-refresh-recency-at-quiescence") and ok
        D.call(cf(1))
        if len(invocations) != n0 + 1:
            ok = fail("lru_cache:eviction-order-wrong-at-quiescence") and ok
    cf.cache_clear()
    ic = cf.cache_info()
    if (ic.hits, ic.misses, ic.currsize) != (0, 0, 0):
        ok = fail("lru_cache:cache_clear-does-not-reset-at-quiescence", ic) and ok
    # a failed call stores nothing but is counted; clearing the (empty) cache resets the counters
    failmode[0] = True
    rf = D.call(cf(0))
    failmode[0] = False
    ic = cf.cache_info()
    if rf[0] != "exc" or (ic.hits, ic.misses, ic.currsize) != (0, 1, 0):
        ok = fail("lru_cache:failed-call-miscounted-or-stored", (rf, ic)) and ok
    cf.cache_clear()
    ic = cf.cache_info()
    if (ic.hits, ic.misses, ic.currsize) != (0, 0, 0):
        ok = fail("lru_cache:cache_clear-does-not-reset-an-empty-cache", ic) and ok
    for v in W.viol:
        ok = fail("lru_cache:%s" % v, choices.trace) and ok
    switches = 0
    for p, q in zip(choices.trace, choices.trace[1:]):
        if p != q:
            switches += 1
    return finish(ok, switches >= 1 and len(results) >= 2, ("lru", tuple(tuple(r) for r in plan), tuple(choices.trace), cancelled))


from .sched import define, NCH  # noqa: E402

h_lru = define("h_lru", "a: int, b: int, k: int, x: int", "a, b, k, x", "_pre", "_body", globals())


def _grid():
    import random

    rnd = random.Random(53)
    return [tuple([rnd.randint(0, 3) for _ in range(NCH)] + [rnd.randrange(P("KEYSPACE", 4)), rnd.randrange(P("KEYSPACE", 4)), rnd.randint(0, P("K", 0)), rnd.randint(0, P("X", 0))]) for _ in range(200)]


GRID = {"h_lru": _grid}


def jobs(tier):
    q = tier == "quick"
    T = 400 if q else 900
    J = []

    def add(**part):
        J.append({"module": "c11", "fn": "h_lru", "part": part, "timeout": T})

    for ms in ("none", "one", "two"):
        add(T=2, CALLS=2, KEYS=2, FSUSP=1, ms=ms, KEYSPACE=2)
        add(T=2, CALLS=(1 if q else 2), KEYS=2, FSUSP=2, ms=ms, KEYSPACE=2)
        add(T=3, CALLS=1, KEYS=2, FSUSP=1, ms=ms, KEYSPACE=2)
        add(T=2, CALLS=2, KEYS=2, FSUSP=1, ms=ms, KEYSPACE=2, pats="collide")
        add(T=2, CALLS=2, KEYS=2, FSUSP=1, ms=ms, KEYSPACE=2, none_value=True)
        add(T=2, CALLS=2, KEYS=2, FSUSP=1, ms=ms, KEYSPACE=2, extra="clear", X=1)
        add(T=2, CALLS=2, KEYS=2, FSUSP=1, ms=ms, KEYSPACE=2, extra="discard", X=1)
        add(T=2, CALLS=2, KEYS=2, FSUSP=1, ms=ms, KEYSPACE=2, K=2)
        if not q:
            add(T=3, CALLS=2, KEYS=2, FSUSP=1, ms=ms, KEYSPACE=2)
            add(T=2, CALLS=3, KEYS=3, FSUSP=1, ms=ms, KEYSPACE=3)
            for c0 in range(3):
                for c1 in range(3):  # partitioned by the first two scheduling choices
                    add(T=3, CALLS=1, KEYS=3, FSUSP=2, ms=ms, KEYSPACE=3, K=2, c0=c0, c1=c1)
            for c0 in range(4):
                for c1 in range(4):
                    add(T=4, CALLS=1, KEYS=2, FSUSP=1, ms=ms, KEYSPACE=2, c0=c0, c1=c1)
    return J


BOUNDS = {
    "quick": "all interleavings of 2 tasks x 2 calls and 3 tasks x 1 call over 2 keys (key plan chosen by symbolic selectors), wrapped function suspending 1..2 times, maxsize None/1/2, a cache_clear or cache_discard issued by one task before its x-th call, the last task cancelled at its k-th suspension (k<=2); invariants checked after every scheduler step, sequential behaviour re-checked at quiescence",
    "thorough": "additionally 3 tasks x 2 calls, 2 tasks x 3 calls over 3 keys, 3 tasks with cancellation, 4 tasks x 1 call",
}
OUTSIDE = ["4 tasks with more than one call each; 3 calls each for 3+ tasks", "full C10 equivalence at quiescence is replaced by a hit/miss/identity probe of every key"]
NONTRIVIAL_RULE = ">=1 context switch and >=2 completed calls in the schedule"
ASSUMPTIONS = ["scheduler as in C09; statistics are sampled after every scheduler step (between any two suspension points of any task)"]

MANIFEST = {
    "text": 'Bounded model checking of overlapping cached calls: all interleavings of 2..3 tasks, invariants (currsize<=maxsize, hits+misses=calls, misses=invocations, value produced for an equal pattern) after every scheduler step, clear/discard in flight, cancellation, sequential probe at quiescence. Nothing is claimed outside the bounds listed in the evidence file.',
    "note": 'Trusted: CrossHair 0.0.110 (with short-circuiting off and a refined callable() model), z3 5.1.0, the harness oracles. Scheduler as in C09.',
}
