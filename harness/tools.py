"""
Tool table: for every public iterator tool / aggregation, how to build the asyncstdlib
call and the standard-library counterpart from one shared `Data` (the same item
objects on both sides). The drivers of C01/C03/C04/C05/C06/C17/C18/C20 are generic over
this table.

Only the public API of asyncstdlib is used.
"""
import builtins
import functools
import heapq
import itertools

import asyncstdlib as A

from .world import Item, Term, Fault, HarnessError, _is_crosshair_control


class Data:
    """Inputs shared by both sides."""

    def __init__(self, srcs, p=(), b=(), extra=None):
        self.srcs = srcs  # list of lists of items
        self.p = list(p)  # int parameters (symbolic)
        self.b = list(b)  # flags (symbolic)
        self.sentinel = Item(0, "sentinel")
        self.fill = Item(0, "fill")
        self.initial = Item(0, "init")
        self.default = Item(0, "default")
        self.extra = extra


class Opts:
    def __init__(self, fl=None, ffl="def", spec=False):
        self.fl = fl or ["agen"] * 4  # flavour per source on the asyncstdlib side
        self.ffl = ffl  # callable flavour on the asyncstdlib side
        self.spec = spec  # use spec oracles for int-parameter tools (symbolic ints)


def S(W, d, o, i):
    # a plain list is not instrumented: use it on both sides so that use numbers stay aligned
    return W.source(d.srcs[i], o.fl[i] if (W.mode == "a" or o.fl[i] in ("list", "llist")) else "iter")


class CallableRaised(ValueError):
    pass


def F(W, o, name, impl):
    if getattr(o, "raising", False):
        # the callable raises for items with a key below -5 (the solver picks which)
        inner = impl

        def impl(*xs):
            for x in xs:
                if isinstance(x, Item) and x.key < -5:
                    raise CallableRaised("callable refuses this item")
            return inner(*xs)

    return W.fn(name, impl, o.ffl)


def _pred(x):
    return x.key > 1  # deliberately not the items' own truth value (key > 0)


def _term(name):
    return lambda *xs: Term(name, xs)


def _keyf(x):
    return KeyOf(x)


class KeyOf:
    """Result of a key function: ordered by the item's key, remembers the item."""

    __slots__ = ("k", "of")

    def __init__(self, it):
        self.k = it.key
        self.of = it

    def __lt__(self, o):
        return self.k < o.k

    def __gt__(self, o):
        return self.k > o.k

    def __le__(self, o):
        return self.k <= o.k

    def __ge__(self, o):
        return self.k >= o.k

    def __eq__(self, o):
        return isinstance(o, KeyOf) and self.k == o.k

    def __ne__(self, o):
        return not (isinstance(o, KeyOf) and self.k == o.k)

    __hash__ = None


# ---------------------------------------------------------------------------
# spec oracles for tools whose stdlib version is a C function over ints
# (validated against the real itertools on a concrete grid at every run)
# ---------------------------------------------------------------------------
def islice_spec(iterable, *args):
    """Port of CPython's islice_next (Modules/itertoolsmodule.c)."""
    s = slice(*args)
    start = 0 if s.start is None else s.start
    stop = s.stop
    step = 1 if s.step is None else s.step
    if start < 0 or (stop is not None and stop < 0) or step < 1:
        raise ValueError("islice indices")
    it = iter(iterable)
    cnt = 0
    nxt = start
    while True:
        while cnt < nxt:
            try:
                next(it)
            except StopIteration:
                return
            cnt += 1
        if stop is not None and cnt >= stop:
            return
        try:
            item = next(it)
        except StopIteration:
            return
        cnt += 1
        nxt += step
        if stop is not None and nxt > stop:
            nxt = stop
        yield item


def batched_spec(iterable, n, strict=False):
    """itertools.batched as documented for 3.13 (3.12 has no `strict`)."""
    if n < 1:
        raise ValueError("n must be at least one")
    it = iter(iterable)
    while True:
        batch = []
        i = 0
        while i < n:
            try:
                batch.append(next(it))
            except StopIteration:
                break
            i += 1
        if not batch:
            return
        if strict and len(batch) != n:
            raise ValueError("batched(): incomplete batch")
        yield tuple(batch)
        if len(batch) != n:
            # the real tool polls the exhausted source again; unobservable (see C05 model)
            return


def enumerate_spec(iterable, start=0):
    n = start
    for x in iterable:
        yield (n, x)
        n += 1


def zip_longest_s(*its, fillvalue=None):
    return itertools.zip_longest(*its, fillvalue=fillvalue)


def accumulate_s(it, f, initial_given, initial):
    """itertools.accumulate with the documented deviation: empty + no initial -> TypeError."""

    def gen():
        itr = iter(it)
        if initial_given:
            total = initial
        else:
            try:
                total = next(itr)
            except StopIteration:
                raise TypeError("accumulate() of empty sequence with no initial value") from None
        yield total
        for x in itr:
            total = f(total, x)
            yield total

    return gen()


def _pop_iter(W, d, o, i):
    """callable for iter(callable, sentinel): hands out items of source i, then raises."""
    src = d.srcs[i]
    st = {"i": 0}

    def impl():
        j = st["i"]
        st["i"] = j + 1
        if j >= len(src):
            raise Fault("callable exhausted")
        return src[j]

    return F(W, o, "next", impl)


def _islice_args(d):
    form = d.extra  # 1: (stop,), 2: (start, stop), 3: (start, stop, step); None-ness from flags
    p, b = d.p, d.b
    if form == 1:
        return (None if b[0] else p[1],)
    if form == 2:
        return (None if b[1] else p[0], None if b[0] else p[1])
    return (None if b[1] else p[0], None if b[0] else p[1], None if b[2] else p[2])


class Tool:
    def __init__(self, name, nsrc, a, s, fn=False, total=None, ints=False, closes_on_close=True, spec=None):
        self.name = name
        self.nsrc = nsrc  # (min, max) number of sources
        self.a = a
        self.s = s
        self.fn = fn  # has a user callable
        self.total = total
        self.ints = ints
        self.spec = spec  # alternative s-side builder for symbolic int parameters


def _srcs(W, d, o):
    return [S(W, d, o, i) for i in range(len(d.srcs))]


TOOLS = {}


def _reg(t):
    TOOLS[t.name] = t
    return t


_reg(Tool("zip", (1, 4), lambda W, d, o: A.zip(*_srcs(W, d, o), strict=d.b[0]), lambda W, d, o: builtins.zip(*_srcs(W, d, o), strict=d.b[0])))
_reg(Tool("zip0", (0, 0), lambda W, d, o: A.zip(strict=d.b[0]), lambda W, d, o: builtins.zip(strict=d.b[0])))
_reg(Tool("map", (1, 3), lambda W, d, o: A.map(F(W, o, "f", _term("f")), *_srcs(W, d, o)), lambda W, d, o: builtins.map(F(W, o, "f", _term("f")), *_srcs(W, d, o)), fn=True))
_reg(Tool("filter", (1, 1), lambda W, d, o: A.filter(F(W, o, "p", _pred), S(W, d, o, 0)), lambda W, d, o: builtins.filter(F(W, o, "p", _pred), S(W, d, o, 0)), fn=True))
_reg(Tool("filter_none", (1, 1), lambda W, d, o: A.filter(None, S(W, d, o, 0)), lambda W, d, o: builtins.filter(None, S(W, d, o, 0))))
_reg(Tool("filterfalse", (1, 1), lambda W, d, o: A.filterfalse(F(W, o, "p", _pred), S(W, d, o, 0)), lambda W, d, o: itertools.filterfalse(F(W, o, "p", _pred), S(W, d, o, 0)), fn=True))
_reg(Tool("filterfalse_none", (1, 1), lambda W, d, o: A.filterfalse(None, S(W, d, o, 0)), lambda W, d, o: itertools.filterfalse.__new__(itertools.filterfalse, None, S(W, d, o, 0))))  # __new__: bypass CrossHair's trampoline, which cannot take None
_reg(Tool("takewhile", (1, 1), lambda W, d, o: A.takewhile(F(W, o, "p", _pred), S(W, d, o, 0)), lambda W, d, o: itertools.takewhile(F(W, o, "p", _pred), S(W, d, o, 0)), fn=True))
_reg(Tool("dropwhile", (1, 1), lambda W, d, o: A.dropwhile(F(W, o, "p", _pred), S(W, d, o, 0)), lambda W, d, o: itertools.dropwhile(F(W, o, "p", _pred), S(W, d, o, 0)), fn=True))
_reg(Tool("compress", (2, 2), lambda W, d, o: A.compress(S(W, d, o, 0), S(W, d, o, 1)), lambda W, d, o: itertools.compress(S(W, d, o, 0), S(W, d, o, 1))))
def _shared(f):
    def build(W, d, o):
        it = S(W, d, o, 0)
        return f(it, it)

    return build


async def _groupby_keys_a(src, key=None):
    async for k, _g in A.groupby(src, key=key):
        yield k


def _groupby_keys_s(src, key=None):
    # __new__: bypass CrossHair's trampoline, which cannot take key=None
    for k, _g in (itertools.groupby.__new__(itertools.groupby, src) if key is None else itertools.groupby(src, key)):
        yield k


def _none_if_small(x):
    return None if x.key <= 0 else x.key > 1


_reg(Tool("groupby_keys", (1, 1), lambda W, d, o: _groupby_keys_a(S(W, d, o, 0)), lambda W, d, o: _groupby_keys_s(S(W, d, o, 0))))
_reg(Tool("groupby_keys_f", (1, 1), lambda W, d, o: _groupby_keys_a(S(W, d, o, 0), F(W, o, "key", _none_if_small)), lambda W, d, o: _groupby_keys_s(S(W, d, o, 0), F(W, o, "key", _none_if_small)), fn=True))


async def _scoped_twice_a(src):
    """scoped_iter over any iterable: the scoped iterator survives tools that close their input."""
    async with A.scoped_iter(src) as it:
        async for v in A.islice(it, 1):
            yield v
        async for v in it:
            yield v


def _scoped_twice_s(src):
    it = builtins.iter(src)
    yield from itertools.islice(it, 1)
    yield from it


_reg(Tool("scoped_twice", (1, 1), lambda W, d, o: _scoped_twice_a(S(W, d, o, 0)), lambda W, d, o: _scoped_twice_s(S(W, d, o, 0))))
_reg(Tool("compress_shared", (1, 1), _shared(A.compress), _shared(itertools.compress)))
_reg(Tool("zip_shared", (1, 1), _shared(A.zip), _shared(builtins.zip)))
_reg(Tool("zip_longest_shared", (1, 1), _shared(A.zip_longest), _shared(itertools.zip_longest)))
_reg(Tool("zip_longest_shared3", (1, 1), lambda W, d, o: (lambda it: A.zip_longest(it, it, it))(S(W, d, o, 0)), lambda W, d, o: (lambda it: itertools.zip_longest(it, it, it))(S(W, d, o, 0))))
_reg(Tool("enumerate", (1, 1), lambda W, d, o: A.enumerate(S(W, d, o, 0), d.p[0]), lambda W, d, o: builtins.enumerate(S(W, d, o, 0), d.p[0]), ints=True, spec=lambda W, d, o: enumerate_spec(S(W, d, o, 0), d.p[0])))
_reg(Tool("enumerate0", (1, 1), lambda W, d, o: A.enumerate(S(W, d, o, 0)), lambda W, d, o: builtins.enumerate(S(W, d, o, 0))))
_reg(Tool("iter_sentinel", (1, 1), lambda W, d, o: A.iter(_pop_iter(W, d, o, 0), d.sentinel), lambda W, d, o: builtins.iter(_pop_iter(W, d, o, 0), d.sentinel), fn=True))
_reg(Tool("accumulate_f", (1, 1), lambda W, d, o: A.accumulate(S(W, d, o, 0), F(W, o, "f", _term("acc"))), lambda W, d, o: accumulate_s(S(W, d, o, 0), F(W, o, "f", _term("acc")), False, None), fn=True))
_reg(Tool("accumulate_f_init", (1, 1), lambda W, d, o: A.accumulate(S(W, d, o, 0), F(W, o, "f", _term("acc")), initial=d.initial), lambda W, d, o: itertools.accumulate(S(W, d, o, 0), F(W, o, "f", _term("acc")), initial=d.initial), fn=True))
_reg(Tool("batched", (1, 1), lambda W, d, o: A.batched(S(W, d, o, 0), d.p[0], d.b[0]), lambda W, d, o: batched_spec(S(W, d, o, 0), d.p[0], d.b[0]), ints=True, spec=lambda W, d, o: batched_spec(S(W, d, o, 0), d.p[0], d.b[0])))
_reg(Tool("batched_real", (1, 1), lambda W, d, o: A.batched(S(W, d, o, 0), d.p[0]), lambda W, d, o: itertools.batched(S(W, d, o, 0), d.p[0]), ints=True))
_reg(Tool("chain", (0, 3), lambda W, d, o: A.chain(*_srcs(W, d, o)), lambda W, d, o: itertools.chain(*_srcs(W, d, o))))
_reg(Tool("chain_from", (0, 3), lambda W, d, o: A.chain.from_iterable(_srcs(W, d, o)), lambda W, d, o: itertools.chain.from_iterable(_srcs(W, d, o))))
_reg(Tool("cycle", (1, 1), lambda W, d, o: A.cycle(S(W, d, o, 0)), lambda W, d, o: itertools.cycle(S(W, d, o, 0)), total=lambda d: 2 * len(d.srcs[0]) + 2))
_reg(Tool("islice", (1, 1), lambda W, d, o: A.islice(S(W, d, o, 0), *_islice_args(d)), lambda W, d, o: itertools.islice(S(W, d, o, 0), *_islice_args(d)), ints=True, spec=lambda W, d, o: islice_spec(S(W, d, o, 0), *_islice_args(d))))
_reg(Tool("pairwise", (1, 1), lambda W, d, o: A.pairwise(S(W, d, o, 0)), lambda W, d, o: itertools.pairwise(S(W, d, o, 0))))
_reg(Tool("starmap", (1, 2), lambda W, d, o: A.starmap(F(W, o, "f", _term("sm")), A.zip(*_srcs(W, d, o))) if False else A.starmap(F(W, o, "f", _term("sm")), _tuples_a(W, d, o)), lambda W, d, o: itertools.starmap(F(W, o, "f", _term("sm")), _tuples_s(W, d, o)), fn=True))
_reg(Tool("zip_longest", (1, 4), lambda W, d, o: A.zip_longest(*_srcs(W, d, o), fillvalue=d.fill), lambda W, d, o: itertools.zip_longest(*_srcs(W, d, o), fillvalue=d.fill)))
_reg(Tool("zip_longest_nofill", (1, 3), lambda W, d, o: A.zip_longest(*_srcs(W, d, o)), lambda W, d, o: itertools.zip_longest(*_srcs(W, d, o))))
_reg(Tool("zip_longest0", (0, 0), lambda W, d, o: A.zip_longest(), lambda W, d, o: itertools.zip_longest()))


def _tuples_a(W, d, o):
    """source of argument tuples for starmap: tuples built from source 0 (and 1)."""
    tuples = _pairs(d)
    return W.source(tuples, o.fl[0] if W.mode == "a" else "iter")


def _tuples_s(W, d, o):
    return W.source(_pairs(d), "iter")


def _pairs(d):
    if d.extra is None or "pairs" not in d.extra:
        if len(d.srcs) == 1:
            ps = [(x,) for x in d.srcs[0]]
        else:
            ps = [(x, y) for x, y in builtins.zip(d.srcs[0], d.srcs[1])]
        d.extra = {"pairs": ps}
    return d.extra["pairs"]


def _merge_key(W, o, use_key):
    return F(W, o, "key", _keyf) if use_key else None


_reg(
    Tool(
        "merge",
        (0, 4),
        lambda W, d, o: A.merge(*_srcs(W, d, o), key=_merge_key(W, o, d.b[1]), reverse=d.b[0]),
        lambda W, d, o: heapq.merge(*_srcs(W, d, o), key=_merge_key(W, o, d.b[1]), reverse=d.b[0]),
    )
)

GENERIC_TOOLS = [
    "zip",
    "map",
    "filter",
    "filter_none",
    "filterfalse",
    "filterfalse_none",
    "takewhile",
    "dropwhile",
    "compress",
    "enumerate",
    "iter_sentinel",
    "accumulate_f",
    "accumulate_f_init",
    "batched",
    "chain",
    "chain_from",
    "cycle",
    "islice",
    "pairwise",
    "starmap",
    "zip_longest",
    "merge",
]


def total_out(tool, d):
    if tool.total is not None:
        return tool.total(d)
    n = 0
    for s in d.srcs:
        n += len(s)
    return n + 2


# ---------------------------------------------------------------------------
# aggregations
# ---------------------------------------------------------------------------
class Agg:
    def __init__(self, name, a, s, fn=False, eq=None):
        self.name = name
        self.a = a
        self.s = s
        self.fn = fn
        self.eq = eq


AGGS = {}


def _rega(t):
    AGGS[t.name] = t
    return t


def _kw_minmax(W, d, o):
    kw = {}
    if d.b[1]:
        kw["key"] = F(W, o, "key", _keyf)
    if d.b[0]:
        kw["default"] = d.default
    return kw


def _kw_sorted(W, d, o):
    kw = {"reverse": d.b[0]}
    if d.b[1]:
        kw["key"] = F(W, o, "key", _keyf)
    return kw


def _kw_key(W, d, o):
    return {"key": F(W, o, "key", _keyf)} if d.b[1] else {}


def _reduce_args(W, d, o):
    if not d.b[0]:
        return ()
    return (None,) if d.b[1] else (d.initial,)  # None is a real initial value (flag b1 is free for reduce)


_rega(Agg("all", lambda W, d, o: A.all(S(W, d, o, 0)), lambda W, d, o: builtins.all(S(W, d, o, 0))))
_rega(Agg("any", lambda W, d, o: A.any(S(W, d, o, 0)), lambda W, d, o: builtins.any(S(W, d, o, 0))))
_rega(Agg("min", lambda W, d, o: A.min(S(W, d, o, 0), **_kw_minmax(W, d, o)), lambda W, d, o: builtins.min(S(W, d, o, 0), **_kw_minmax(W, d, o)), fn=True))
_rega(Agg("max", lambda W, d, o: A.max(S(W, d, o, 0), **_kw_minmax(W, d, o)), lambda W, d, o: builtins.max(S(W, d, o, 0), **_kw_minmax(W, d, o)), fn=True))
_rega(Agg("sorted", lambda W, d, o: A.sorted(S(W, d, o, 0), **_kw_sorted(W, d, o)), lambda W, d, o: builtins.sorted(S(W, d, o, 0), **_kw_sorted(W, d, o)), fn=True))
_rega(Agg("nlargest", lambda W, d, o: A.nlargest(S(W, d, o, 0), d.p[0], **_kw_key(W, d, o)), lambda W, d, o: heapq.nlargest(d.p[0], S(W, d, o, 0), **_kw_key(W, d, o)), fn=True))
_rega(Agg("nsmallest", lambda W, d, o: A.nsmallest(S(W, d, o, 0), d.p[0], **_kw_key(W, d, o)), lambda W, d, o: heapq.nsmallest(d.p[0], S(W, d, o, 0), **_kw_key(W, d, o)), fn=True))
_rega(Agg("reduce", lambda W, d, o: A.reduce(F(W, o, "f", _term("red")), S(W, d, o, 0), *_reduce_args(W, d, o)), lambda W, d, o: functools.reduce(F(W, o, "f", _term("red")), S(W, d, o, 0), *_reduce_args(W, d, o)), fn=True))
_rega(Agg("list", lambda W, d, o: A.list(S(W, d, o, 0)), lambda W, d, o: builtins.list(S(W, d, o, 0))))
_rega(Agg("tuple", lambda W, d, o: A.tuple(S(W, d, o, 0)), lambda W, d, o: builtins.tuple(S(W, d, o, 0))))

GENERIC_AGGS = ["all", "any", "min", "max", "sorted", "nlargest", "nsmallest", "reduce", "list", "tuple"]
