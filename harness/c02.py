"""C02 — aggregations return the standard-library result and never alter their inputs."""
import builtins

import asyncstdlib as A

from .world import P, World, Driver, Item, Opaque, finish, fail, same, same_seq, call_sync, Suspended, reset_run, _no_tracing
from .tools import AGGS, Data, Opts

PROPERTY = "C02"


def _pre_agg(n0, bad, p0):
    return 0 <= n0 <= P("N", 3) and -1 <= bad < (n0 if P("bad", False) else 0)


def _fix_flags(b0, b1):
    ok = True
    if P("b0") is not None:
        ok = ok and b0 == P("b0")
    if P("b1") is not None:
        ok = ok and b1 == P("b1")
    return ok


def h_agg(k0: int, k1: int, k2: int, k3: int, k4: int, k5: int, n0: int, bad: int, p0: int, b0: bool, b1: bool):
    """
    pre: _pre_agg(n0, bad, p0)
    pre: _fix_flags(b0, b1)
    post: _[0]
    post: not _[1]
    """
    reset_run()
    from .world import Item as _I

    _I.BAD_EXC = ValueError if P("badexc") == "value" else TypeError
    agg = AGGS[P("agg")]
    keys = [k0, k1, k2, k3, k4, k5]
    items = []
    for j in range(n0):
        # allbad: with a key function the items themselves are never compared by the stdlib
        if P("allbad", False):
            items.append(Opaque(keys[j], "0.%d" % j))
        else:
            items.append(Item(keys[j], "0.%d" % j, bad=(j == bad)))
    d = Data([items], [p0], [b0, b1])
    fl = P("fl", "agen")
    o = Opts(fl=[fl] * 4, ffl=P("ffl", "def"))
    Wa, Ws = World("a"), World("s")
    D = Driver(Wa, sync_only=True)
    try:
        ra = D.call(agg.a(Wa, d, o))
    except Suspended:
        return finish(fail("%s:suspended-with-nonsuspending-arguments" % agg.name), False)
    rs = call_sync(agg.s, Ws, d, o)
    ok = True
    name = agg.name
    if ra[0] != rs[0]:
        ok = fail("%s:outcome-kind-differs" % name, (ra, rs)) and ok
    elif ra[0] == "ok":
        va, vs = ra[1], rs[1]
        if type(vs) is bool:
            if va is not vs:
                ok = fail("%s:value-differs" % name, (va, vs)) and ok
        elif not same(va, vs):
            ok = fail("%s:value-differs" % name, (va, vs)) and ok
    elif type(ra[1]) is not type(rs[1]):
        ok = fail("%s:exception-type-differs" % name, (ra, rs)) and ok
    # inputs untouched: the input list (list flavour) still holds the same objects
    if fl == "list":
        if not same_seq(Wa.srcs[0].obj, items):
            ok = fail("%s:input-list-mutated" % name) and ok
    # the default is never passed to key
    for ev in Wa.log:
        if ev[0] == "call" and ev[1] == "key" and ev[2] is d.default:
            ok = fail("%s:default-passed-to-key" % name) and ok
    if Wa.viol:
        ok = fail("%s:%s" % (name, Wa.viol[0])) and ok
    nontrivial = len(items) >= 2
    return finish(ok, nontrivial, (name, len(items), rs[0]))


# ---- sum ---------------------------------------------------------------------
NUM_POOL = (1, 1.0, True, 0, 0.1, False, -1, 2.5, 0.2, 0.3)


def _pre_sum(n, s0, s1, s2, s3, ss):
    L = len(NUM_POOL)
    return 0 <= n <= P("N", 3) and 0 <= s0 < L and 0 <= s1 < L and 0 <= s2 < L and 0 <= s3 < L and -1 <= ss < L


def _pickpool(pool, sel):
    for i in range(len(pool) - 1):
        if sel == i:
            return pool[i]
    return pool[len(pool) - 1]


def h_sum_int(a0: int, a1: int, a2: int, a3: int, n: int, start: int, has_start: bool):
    """
    pre: 0 <= n <= P("N", 4)
    post: _[0]
    post: not _[1]
    """
    reset_run()
    vals = [a0, a1, a2, a3][: int(n)] if False else []
    src = [a0, a1, a2, a3]
    for j in range(n):
        vals.append(src[j])
    Wa = World("a")
    D = Driver(Wa, sync_only=True)
    fl = P("fl", "agen")
    args = (start,) if has_start else ()
    ra = D.call(A.sum(Wa.source(vals, fl), *args))
    rs = call_sync(builtins.sum, list(vals), *args)
    ok = True
    if ra[0] != "ok" or rs[0] != "ok" or not (ra[1] == rs[1]):
        ok = fail("sum:int-value-differs", (ra, rs))
    return finish(ok, len(vals) >= 2, ("sum_int", len(vals), bool(has_start)))


def h_sum_pool(n: int, s0: int, s1: int, s2: int, s3: int, ss: int):
    """
    pre: _pre_sum(n, s0, s1, s2, s3, ss)
    post: _[0]
    post: not _[1]
    """
    reset_run()
    sels = [s0, s1, s2, s3]
    vals = []
    for j in range(n):
        vals.append(_pickpool(NUM_POOL, sels[j]))
    args = () if ss == -1 else (_pickpool(NUM_POOL, ss),)
    Wa = World("a")
    D = Driver(Wa, sync_only=True)
    ra = D.call(A.sum(Wa.source(vals, P("fl", "agen")), *args))
    with _no_tracing():
        rs = call_sync(builtins.sum, list(vals), *args)
        ok = ra[0] == "ok" and rs[0] == "ok" and type(ra[1]) is type(rs[1]) and ra[1] == rs[1]
        rounding_only = (not ok) and ra[0] == "ok" and rs[0] == "ok" and type(ra[1]) is float and type(rs[1]) is float and abs(ra[1] - rs[1]) <= 1e-12 * max(1.0, abs(rs[1]))
    if not ok:
        if rounding_only:
            # CPython >= 3.12 sums floats with compensated (Neumaier) summation
            ok = fail("sum:float-rounding-differs-from-builtin-compensated-summation", (vals, args, ra, rs))
        else:
            fail("sum:pool-value-differs", (vals, args, ra, rs))
    return finish(ok, len(vals) >= 2, ("sum_pool", len(vals), len(args)))


def h_sum_lists(n: int, k0: int, k1: int, k2: int, startlen: int, kind: int):
    """
    pre: 0 <= n <= 3 and 0 <= startlen <= 2 and 0 <= kind <= 2
    post: _[0]
    post: not _[1]
    """
    reset_run()
    its = [Item(k0, "a"), Item(k1, "b"), Item(k2, "c")]
    pre = [Item(0, "s0"), Item(0, "s1")]
    vals = []
    for j in range(n):
        vals.append([its[j]])
    start_a = []
    for j in range(startlen):
        start_a.append(pre[j])
    start_s = list(start_a)
    snap = list(start_a)
    Wa = World("a")
    D = Driver(Wa, sync_only=True)
    if kind == 0:
        ra = D.call(A.sum(Wa.source(vals, P("fl", "agen")), start_a))
        rs = call_sync(builtins.sum, list(vals), start_s)
    elif kind == 1:  # tuples (immutable start; += rebinding is fine)
        tv = [tuple(v) for v in vals]
        ra = D.call(A.sum(Wa.source(tv, P("fl", "agen")), tuple(start_a)))
        rs = call_sync(builtins.sum, list(tv), tuple(start_s))
    else:  # unsupported operand: int start + list items
        ra = D.call(A.sum(Wa.source(vals, P("fl", "agen"))))
        rs = call_sync(builtins.sum, list(vals))
    ok = True
    if ra[0] != rs[0]:
        ok = fail("sum:outcome-kind-differs", (ra, rs)) and ok
    elif ra[0] == "ok":
        if type(ra[1]) is not type(rs[1]) or (type(rs[1]) in (list, tuple) and not same_seq(list(ra[1]), list(rs[1]))) or (type(rs[1]) is int and ra[1] != rs[1]):
            ok = fail("sum:value-differs", (ra, rs)) and ok
    elif type(ra[1]) is not type(rs[1]):
        ok = fail("sum:exception-type-differs", (ra, rs)) and ok
    if not same_seq(start_a, snap):
        ok = fail("sum:start-mutated", (start_a, snap)) and ok
    if ra[0] == "ok" and kind == 0 and ra[1] is start_a and len(vals) > 0:
        ok = fail("sum:start-returned-after-accumulating") and ok
    return finish(ok, len(vals) >= 1, ("sum_lists", len(vals), len(snap), kind))


# ---- collections over pool-selected hashables -----------------------------------
class Unhashable:
    __hash__ = None

    def __eq__(self, o):
        return self is o


HPOOL = (1, 1.0, True, 0, "a", "b", (1, 2), None, 2, "1")
_UNH = Unhashable()
CPOOL = HPOOL + (_UNH,)


def _pre_coll(n, s0, s1, s2, s3):
    L = len(CPOOL) if P("unhashable", True) else len(HPOOL)
    return 0 <= n <= P("N", 3) and 0 <= s0 < L and 0 <= s1 < L and 0 <= s2 < L and 0 <= s3 < L


def _eq_coll(va, vs):
    # (runs under tracing: CrossHair builds its own dict/set models for comprehensions)
    if isinstance(vs, dict):
        if not isinstance(va, dict):
            return False
        ka, ks = list(va.keys()), list(vs.keys())
        if len(ka) != len(ks):
            return False
        for k1, k2 in zip(ka, ks):
            if type(k1) is not type(k2) or not (k1 == k2) or va[k1] is not vs[k2]:
                return False
        return True
    if isinstance(vs, (set, frozenset)):
        if not isinstance(va, (set, frozenset)) or len(va) != len(vs):
            return False
        # same elements and the retained representative has the same type (1 vs 1.0 vs True)
        for x in vs:
            found = False
            for y in va:
                if y == x and type(y) is type(x):
                    found = True
            if not found:
                return False
        return True
    return False


def h_coll(n: int, s0: int, s1: int, s2: int, s3: int, shape: int, kw: int):
    """
    pre: _pre_coll(n, s0, s1, s2, s3)
    pre: 0 <= shape <= 3 and 0 <= kw <= 2
    post: _[0]
    post: not _[1]
    """
    reset_run()
    which = P("coll", "set")
    sels = [s0, s1, s2, s3]
    keys = []
    for j in range(n):
        keys.append(_pickpool(CPOOL, sels[j]))
    vals = [Item(0, "v%d" % j) for j in range(4)]
    Wa = World("a")
    D = Driver(Wa, sync_only=True)
    fl = P("fl", "agen")
    if which == "set":
        elems = list(keys)
        ra = D.call(A.set(Wa.source(elems, fl)))
        with _no_tracing():
            rs = call_sync(builtins.set, list(elems))
        kwargs = {}
    else:
        elems = []
        for j, k in enumerate(keys):
            if shape == 1 and j == 1:
                elems.append((k,))  # not a pair
            elif shape == 2 and j == 0:
                elems.append((k, vals[j], vals[j]))  # too long
            elif shape == 3 and j == 1:
                elems.append(5)  # not iterable
            else:
                elems.append((k, vals[j]))
        kwargs = {}
        if kw >= 1:
            kwargs["a"] = vals[3]
        if kw >= 2:
            kwargs["zz"] = vals[2]
        if P("noarg", False):
            ra = D.call(A.dict(**kwargs))
            with _no_tracing():
                rs = call_sync(builtins.dict, **kwargs)
        else:
            ra = D.call(A.dict(Wa.source(elems, fl), **kwargs))
            with _no_tracing():
                rs = call_sync(builtins.dict, list(elems), **kwargs)
    if ra[0] != rs[0]:
        ok = False
        sig = "%s:outcome-kind-differs" % which
    elif ra[0] == "ok":
        ok = _eq_coll(ra[1], rs[1])
        sig = "%s:value-differs" % which
    else:
        ok = type(ra[1]) is type(rs[1])
        sig = "%s:exception-type-differs" % which
    if not ok:
        fail(sig, (elems, kwargs, ra, rs))
    return finish(ok, len(keys) >= 2 or P("noarg", False), (which, len(keys), len(kwargs), rs[0], type(rs[1]).__name__ if rs[0] == "exc" else ""))


def h_misc(sel: int):
    """
    pre: 0 <= sel <= 7
    post: _[0]
    post: not _[1]
    """
    reset_run()
    Wa = World("a")
    D = Driver(Wa, sync_only=True)
    ok = True
    cases = [
        (lambda: A.list(), lambda: builtins.list()),
        (lambda: A.tuple(), lambda: builtins.tuple()),
        (lambda: A.set(), lambda: builtins.set()),
        (lambda: A.dict(), lambda: builtins.dict()),
        (lambda: A.sum([]), lambda: builtins.sum([])),
        (lambda: A.min([], default=None), lambda: builtins.min([], default=None)),
        (lambda: A.max([]), lambda: builtins.max([])),
        (lambda: A.sorted([]), lambda: builtins.sorted([])),
    ]
    fa, fs = cases[0]
    for i in range(len(cases)):
        if sel == i:
            fa, fs = cases[i]
    ra = D.call(fa())
    rs = call_sync(fs)
    if ra[0] != rs[0] or (ra[0] == "ok" and (type(ra[1]) is not type(rs[1]) or ra[1] != rs[1])) or (ra[0] == "exc" and type(ra[1]) is not type(rs[1])):
        ok = fail("misc:empty-call-differs", (ra, rs))
    return finish(ok, True, ("misc", sel))


# ---- grids ---------------------------------------------------------------------
def _grid_agg():
    import random

    rnd = random.Random(5)
    N = P("N", 3)
    out = []
    for _ in range(80):
        n = rnd.randint(0, N)
        bad = rnd.randint(-1, n - 1) if (P("bad", False) and n) else -1
        b0 = P("b0") if P("b0") is not None else rnd.random() < 0.5
        b1 = P("b1") if P("b1") is not None else rnd.random() < 0.5
        out.append(tuple([rnd.choice([0, 1, 1, 2, -1]) for _ in range(6)] + [n, bad, rnd.choice([-1, 0, 1, 2, 3, 5]), b0, b1]))
    return out


def _grid_coll():
    import random

    rnd = random.Random(6)
    L = len(CPOOL) if P("unhashable", True) else len(HPOOL)
    return [tuple([rnd.randint(0, P("N", 3))] + [rnd.randrange(L) for _ in range(4)] + [rnd.randint(0, 3), rnd.randint(0, 2)]) for _ in range(80)]


GRID = {
    "h_agg": _grid_agg,
    "h_coll": _grid_coll,
    "h_sum_int": lambda: [(1, 2, 3, 4, n, s, h) for n in range(5) for s in (0, 7) for h in (False, True)],
    "h_sum_pool": lambda: [(n, a, b, 3, 4, ss) for n in range(4) for a in range(10) for b in (0, 1, 7) for ss in (-1, 1, 2)],
    "h_sum_lists": lambda: [(n, 1, 2, 3, sl, k) for n in range(4) for sl in range(3) for k in range(3)],
    "h_misc": lambda: [(i,) for i in range(8)],
}


def jobs(tier):
    q = tier == "quick"
    T = 300 if q else 900
    J = []

    def add(fn, **part):
        J.append({"module": "c02", "fn": fn, "part": part, "timeout": T})

    fls = ("list", "iter", "agen")
    N = 4 if q else 5
    for fl in fls:
        add("h_agg", agg="all", N=N, fl=fl)
        add("h_agg", agg="any", N=N, fl=fl)
        for agg in ("min", "max"):
            for b0 in (False, True):
                add("h_agg", agg=agg, N=N, fl=fl, b0=b0, bad=(fl == "agen"))
        for b1 in (False, True):
            add("h_agg", agg="sorted", N=(3 if q else 4), fl=fl, b1=b1, bad=True)
        for agg in ("nlargest", "nsmallest"):
            for b1 in (False, True):
                add("h_agg", agg=agg, N=(3 if q else 4), fl=fl, b1=b1)
        add("h_agg", agg="reduce", N=N, fl=fl)
        if fl != "agen":
            for agg in ("sorted", "min", "max", "nlargest", "nsmallest"):
                add("h_agg", agg=agg, N=3, fl=fl, b1=True, ffl="obj")
                add("h_agg", agg=agg, N=2, fl=fl, b1=True, ffl="defaw")
                add("h_agg", agg=agg, N=2, fl=fl, b1=True, ffl="fobj", allbad=True)
        if fl != "list":
            for agg in ("nlargest", "nsmallest", "sorted", "min", "max"):
                add("h_agg", agg=agg, N=3, fl=fl, b1=True, allbad=True)
    for agg in ("min", "max"):
        for fl in ("agen", "list"):
            # comparisons that raise ValueError (the exception min/max use themselves for empty inputs)
            for b1 in (False, True):
                add("h_agg", agg=agg, N=3, fl=fl, b0=True, b1=b1, bad=True, badexc="value")
    add("h_agg", agg="list", N=3, fl="agen")
    add("h_agg", agg="tuple", N=3, fl="iter")
    add("h_agg", agg="list", N=3, fl="list")
    for fl in ("list", "agen"):
        add("h_sum_int", N=4, fl=fl)
        add("h_sum_pool", N=(2 if q else 3), fl=fl)
        add("h_sum_lists", fl=fl)
    for fl in ("iter", "agen"):
        add("h_coll", coll="set", N=(3 if q else 4), fl=fl)
        add("h_coll", coll="dict", N=(2 if q else 3), fl=fl)
    add("h_coll", coll="dict", N=0, fl="list", noarg=True)
    add("h_misc")
    return J


BOUNDS = {
    "quick": "items N<=4 (sorted/nlargest/nsmallest N<=3, pools N<=3), keys and n unbounded ints, key absent/sync (also as callable object, awaitable-returning function and falsy callable object over items that cannot be compared themselves), default/initial/start present or absent, comparisons raising TypeError or ValueError, reverse both, one unorderable item at any position, source kinds list / one-shot iterator / async generator; mixed numerics and hashables from concrete pools chosen by symbolic selectors",
    "thorough": "N<=5 (sorted/n* N<=4, pools N<=4)",
}
OUTSIDE = ["str/bytes start values of sum", "mapping arguments to dict", "NaN / partial orders", "lengths above the bound", "async key functions are covered by C03"]
NONTRIVIAL_RULE = "aggregations: >=2 items on the path (ties are covered because keys are unconstrained solver variables and every order-type is a path)"

MANIFEST = {
    "text": 'Differential bounded symbolic execution of the aggregations against the builtins / functools.reduce / heapq with unconstrained keys and n, symbolic flags for key/default/reverse/initial, list / one-shot iterator / async generator inputs, plus concrete pools (mixed numerics incl. inexact floats, hashables, unhashables) chosen by symbolic selectors; argument objects are snapshotted and compared after the call. Nothing is claimed outside the bounds listed in the evidence file.',
    "note": 'Trusted: CrossHair 0.0.110 (with short-circuiting off and a refined callable() model), z3 5.1.0, the harness oracles. C oracles over pool values run under NoTracing; one open known finding (float summation).',
}
