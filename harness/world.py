"""
Shared vocabulary of all harnesses: symbolic-key items, instrumented sources and
callables, hand drivers for coroutines (no event loop), locks and a scheduler.

Nothing in here imports asyncstdlib: the harness modules use the public API only.
Everything is plain Python so that it runs identically under CrossHair's tracer
(symbolic ints/bools flowing through `key`, counters, choice vectors) and natively
(replay of counterexamples, concrete pre-flight grid).
"""
import functools
import gc
import weakref

# ---------------------------------------------------------------------------
# partition parameters (concrete per worker process) and side-channel statistics
# ---------------------------------------------------------------------------
PART = {}
STATS = {"paths": 0, "nontrivial": 0, "shapes": {}, "steps": 0, "tolerated": {}}
TOLERATED = set()  # signatures of open known findings (tolerated inside symbolic runs)
LAST_FAIL = []  # signatures of the failures of the most recent harness execution


def P(name, default=None):
    return PART.get(name, default)


def reset_run():
    del LAST_FAIL[:]


def fail(sig, detail=None):
    """Record a property violation with a signature `<tool>:<assertion>:<phase>`."""
    if sig in TOLERATED:
        STATS["tolerated"][sig] = STATS["tolerated"].get(sig, 0) + 1
        return True
    LAST_FAIL.append((sig, detail))
    return False


def finish(ok, nontrivial, shape=None):
    """Called once at the end of every harness execution (one symbolic path)."""
    STATS["paths"] += 1
    nontrivial = True if nontrivial else False
    if nontrivial:
        STATS["nontrivial"] += 1
    if shape is not None:
        shape = conc(shape)
        with _no_tracing():
            key = _concrete_repr(shape)
            if key is None:
                raise HarnessError("shape descriptor is not concrete: %r" % (shape,))
            if len(STATS["shapes"]) < 4000 and key not in STATS["shapes"]:
                STATS["shapes"][key] = nontrivial is True
    ok = bool(ok) and not LAST_FAIL
    return (ok, bool(nontrivial))


def _no_tracing():
    try:
        from crosshair.tracers import NoTracing

        return NoTracing()
    except ImportError:  # native replay without crosshair installed
        import contextlib

        return contextlib.nullcontext()


def conc(x):
    """Concrete copy of a (path-decided, small) symbolic value; identity when run natively.

    A decided value is found by comparing against small candidates: each comparison has
    only one feasible outcome, so no new path is forked (CrossHair's own realize() would
    add a model-value node and re-execute the whole path for the alternative)."""
    try:
        from crosshair.core import deep_realize
        from crosshair.tracers import is_tracing, NoTracing
    except ImportError:
        return x
    if not is_tracing():
        return x
    with NoTracing():
        t = type(x)
        plain = t in _PLAIN
    if plain:
        return x
    if isinstance(x, (tuple, list)):
        return tuple(conc(y) for y in x)
    if isinstance(x, bool):
        return True if x else False
    if isinstance(x, int):
        for v in range(-3, 64):
            if x == v:
                return v
    return deep_realize(x)


_PLAIN = (int, bool, str, float, type(None))


def _concrete_repr(x):
    t = type(x)
    if t in _PLAIN:
        return repr(x)
    if t is tuple or t is list:
        parts = []
        for y in x:
            r = _concrete_repr(y)
            if r is None:
                return None
            parts.append(r)
        return "(" + ",".join(parts) + ")"
    return None


class HarnessError(Exception):
    """The harness itself is wrong / a bound was too small (never a violation)."""


# ---------------------------------------------------------------------------
# items
# ---------------------------------------------------------------------------
class Item:
    """Object ordered/compared/truth-tested by a (symbolic) integer key.

    Identity (`is`) distinguishes equal items; `tag` is a concrete label.
    """

    __slots__ = ("key", "tag", "bad", "__weakref__")

    def __init__(self, key, tag, bad=False):
        self.key = key
        self.tag = tag
        self.bad = bad  # unorderable: `<` raises TypeError

    BAD_EXC = TypeError  # what comparing an unorderable item raises (a harness may choose ValueError)

    def _chk(self, other):
        if self.bad or getattr(other, "bad", False):
            raise Item.BAD_EXC("unorderable Item")

    def __lt__(self, other):
        if not isinstance(other, Item):
            return NotImplemented
        self._chk(other)
        return self.key < other.key

    def __gt__(self, other):
        if not isinstance(other, Item):
            return NotImplemented
        self._chk(other)
        return self.key > other.key

    def __le__(self, other):
        if not isinstance(other, Item):
            return NotImplemented
        self._chk(other)
        return self.key <= other.key

    def __ge__(self, other):
        if not isinstance(other, Item):
            return NotImplemented
        self._chk(other)
        return self.key >= other.key

    def __eq__(self, other):
        if not isinstance(other, Item):
            return NotImplemented
        return self.key == other.key

    def __ne__(self, other):
        if not isinstance(other, Item):
            return NotImplemented
        return self.key != other.key

    __hash__ = None

    def __bool__(self):
        return True if self.key > 0 else False  # must be a real bool for the interpreter

    def __repr__(self):
        return "I%s" % (self.tag,)


class Opaque:
    """Item that supports nothing but identity (no ordering, default equality): usable only
    through a key function."""

    __slots__ = ("key", "tag", "__weakref__")

    def __init__(self, key, tag):
        self.key = key
        self.tag = tag

    def __repr__(self):
        return "O%s" % (self.tag,)


class Term:
    """Inert result of an uninterpreted user function (free term algebra)."""

    __slots__ = ("f", "args", "__weakref__")

    def __init__(self, f, args):
        self.f = f
        self.args = tuple(args)

    def __repr__(self):
        return "%s%r" % (self.f, self.args)


def same(x, y):
    """Structural identity: same objects, tuples/lists/Terms compared component-wise."""
    if x is y:
        return True
    tx, ty = type(x), type(y)
    if tx is not ty:
        return False
    if tx is tuple or tx is list:
        if len(x) != len(y):
            return False
        for a, b in zip(x, y):
            if not same(a, b):
                return False
        return True
    if tx is Term:
        return x.f == y.f and same(x.args, y.args)
    if tx is int or tx is bool or tx is str or tx is float or x is None:
        return x == y
    if tx is Item or tx is Opaque:
        return False  # distinct objects
    if isinstance(x, int) and isinstance(y, int):
        return x == y
    return False


def same_seq(xs, ys):
    if len(xs) != len(ys):
        return False
    for a, b in zip(xs, ys):
        if not same(a, b):
            return False
    return True


# ---------------------------------------------------------------------------
# suspension tokens, faults
# ---------------------------------------------------------------------------
class Token:
    __slots__ = ("world", "n", "reply", "kind", "lock")

    def __init__(self, world, n, kind="susp", lock=None):
        self.world = world
        self.n = n
        self.kind = kind
        self.lock = lock
        self.reply = ("reply", n)


class Suspend:
    """Awaitable that suspends exactly once, yielding a fresh harness token."""

    __slots__ = ("world", "kind", "lock")

    def __init__(self, world, kind="susp", lock=None):
        self.world = world
        self.kind = kind
        self.lock = lock

    def __await__(self):
        w = self.world
        w.ntok += 1
        tok = Token(w, w.ntok, self.kind, self.lock)
        w.pending.append(tok)
        try:
            reply = yield tok
        except BaseException as e:
            w.thrown_seen.append((tok, e))  # what the loop threw in reached this awaitable
            raise
        if reply is not tok.reply:
            w.bad("c17:reply-altered")
        return None


class Fault(Exception):
    pass


class BaseFault(BaseException):
    pass


class Cancel(BaseException):
    pass


FAULT_KINDS = (Fault, AttributeError, BaseFault, TypeError, ValueError, KeyError, RuntimeError, StopAsyncIteration)


def make_fault(sel):
    for i in range(len(FAULT_KINDS) - 1):
        if sel == i:
            return FAULT_KINDS[i]("injected-fault")
    return FAULT_KINDS[len(FAULT_KINDS) - 1]("injected-fault")


# ---------------------------------------------------------------------------
# the world: event log, use counter, fault injection, sources, callables
# ---------------------------------------------------------------------------
class World:
    def __init__(self, mode, susp=0, fault_at=0, fault=None, fn_susp=None, fault_kind=None):
        self.mode = mode  # 'a' (asyncstdlib side) or 's' (stdlib side)
        self.fault_kind = fault_kind  # None: k-th use overall; 'pull'/'end'/'call': k-th use of that kind
        self.kuses = 0
        self.log = []
        self.uses = 0
        self.fault_at = fault_at
        self.fault = fault
        self.faulted = False
        self.susp = susp if mode == "a" else 0
        self.fn_susp = (self.susp if fn_susp is None else fn_susp) if mode == "a" else 0
        self.close_susp = 0  # suspensions inside a source's aclose() (asyncstdlib side only)
        self.aclose_ret = None  # what a class-based source's aclose() returns (legal: anything)
        self.srcs = []
        self.ntok = 0
        self.thrown_seen = []
        self.pending = []
        self.viol = []
        self.locks = []

    def bad(self, sig):
        self.viol.append(sig)

    def use(self, ev):
        """One use of a user-supplied source/callable (fault positions count these)."""
        if self.faulted:
            self.bad("c06:use-after-fault")
        self.uses += 1
        if self.fault_kind is None:
            hit = self.fault_at and self.uses == self.fault_at
        else:
            hit = False
            if ev[0] == self.fault_kind:
                self.kuses += 1
                hit = self.fault_at and self.kuses == self.fault_at
        if hit:
            self.faulted = True
            self.log.append(("fault",) + tuple(ev[:2]))
            raise self.fault
        self.log.append(ev)

    # -- sources ----------------------------------------------------------
    def source(self, items, flavour, sid=None):
        st = SrcState(self, len(self.srcs) if sid is None else sid, list(items), flavour)
        self.srcs.append(st)
        if self.mode == "s" and flavour == "llist":
            st.obj = LoggingList(st)
            return st.obj
        if self.mode == "s" and flavour != "list":
            st.obj = SyncIter(st)
            return st.obj
        if flavour == "list":
            st.obj = list(items)
            st.untracked = True
        elif flavour == "seq":
            st.obj = SeqSource(st)
        elif flavour == "iter":
            st.obj = SyncIter(st)
        elif flavour == "agen":
            st.obj = _agen_source(st)
        elif flavour == "acls":
            st.obj = AsyncClsSource(st)
        elif flavour == "bare":
            st.obj = AsyncBareSource(st)
        elif flavour == "afull":
            st.obj = AsyncFullSource(st)
        elif flavour == "adual":
            st.obj = AsyncDualSource(st)
        elif flavour == "aitb":
            st.obj = AsyncIterableOf(st)
        elif flavour == "llist":
            st.obj = LoggingList(st)
        else:
            raise HarnessError("flavour %r" % (flavour,))
        return st.obj

    # -- callables --------------------------------------------------------
    def fn(self, name, impl, flavour="def"):
        w = self

        def body(args, kw=None):
            if kw:
                w.use(("call", name) + tuple(args) + (("kw",) + tuple(sorted(kw)),))
                return impl(*args, **kw)
            w.use(("call", name) + tuple(args))
            return impl(*args)

        if self.mode == "s" or flavour == "def":

            def f(*args, **kw):
                return body(args, kw)

            return f
        if flavour == "adef":

            async def f(*args, **kw):
                for _ in range(w.fn_susp):
                    await Suspend(w)
                return body(args, kw)

            return f
        if flavour == "partial":

            async def f0(_dummy, *args, **kw):
                for _ in range(w.fn_susp):
                    await Suspend(w)
                return body(args, kw)

            return functools.partial(f0, None)
        if flavour == "obj":

            async def f1(*args, **kw):
                for _ in range(w.fn_susp):
                    await Suspend(w)
                return body(args, kw)

            class CallObj:
                def __call__(self, *args, **kw):
                    return f1(*args, **kw)

            return CallObj()
        if flavour == "fobj":
            # a callable object that is falsy (an empty container with __call__)
            async def f3(*args, **kw):
                for _ in range(w.fn_susp):
                    await Suspend(w)
                return body(args, kw)

            class FalsyCallObj:
                def __call__(self, *args, **kw):
                    return f3(*args, **kw)

                def __len__(self):
                    return 0

            return FalsyCallObj()
        if flavour == "dcobj":
            # a dataclass-like callable: compares by value (all instances equal), hence unhashable
            class ValueCallObj:
                __hash__ = None

                def __eq__(self, other):
                    return type(other) is type(self)

                def __call__(self, *args, **kw):
                    return body(args, kw)

            return ValueCallObj()
        if flavour == "defaw":
            # a plain function that does its work when called and hands back an awaitable of
            # the result (a second call is a second use)
            class Ready:
                def __init__(self, value):
                    self.value = value

                def __await__(self):
                    for _ in range(w.fn_susp):
                        yield from Suspend(w).__await__()
                    return self.value

            def f2(*args, **kw):
                return Ready(body(args, kw))

            return f2
        raise HarnessError("callable flavour %r" % (flavour,))

    def released(self, only_async=True):
        """True iff every closeable async source is closed or exhausted."""
        for st in self.srcs:
            if not st.is_released():
                return False
        return True


ITER_FLAVOURS = ("list", "seq", "iter", "agen", "acls", "bare", "adual")
ASYNC_FLAVOURS = ("agen", "acls")
FN_FLAVOURS = ("def", "adef", "partial", "obj", "defaw")
ODD_FN_FLAVOURS = ("fobj", "dcobj")  # falsy / value-comparing callable objects (explicit jobs only)


class SrcState:
    def __init__(self, world, sid, items, flavour):
        self.world = world
        self.sid = sid
        self.items = items
        self.flavour = flavour
        self.pos = 0
        self.ended = False
        self.closed = 0
        self.active = 0
        self.overlap = False
        self.untracked = False
        self.started = False
        self.closing = False
        self.close_interrupted = False
        self.obj = None
        self.pull_after_close = False

    def is_released(self):
        if self.world.mode == "s" or self.untracked or self.close_interrupted:
            return True
        f = self.flavour
        if f == "agen":
            return self.ended or self.closed > 0 or self.obj.ag_frame is None
        if f == "aitb":
            return self.ended or self.closed > 0 or not self.started
        if f == "acls" or f == "afull" or f == "adual":
            return self.ended or self.closed > 0
        return True  # nothing to release for sync / bare sources

    def step(self):
        """Common synchronous part of one pull. Returns item or raises Stop marker."""
        w = self.world
        if self.ended:
            if getattr(w, "repoll_events", False):
                w.use(("end", self.sid))  # opt-in: asking an exhausted source again is a use as well
            return _END  # pull on exhausted source: not an event
        if self.pos >= len(self.items):
            w.use(("end", self.sid))
            self.ended = True
            return _END
        w.use(("pull", self.sid, self.pos))
        it = self.items[self.pos]
        self.pos += 1
        return it


_END = object()


class SyncIter:
    def __init__(self, st):
        self.st = st

    def __iter__(self):
        return self

    def __next__(self):
        it = self.st.step()
        if it is _END:
            raise StopIteration
        return it


class SeqSource:
    """Sequence protocol only (__getitem__ with ints from 0, IndexError at the end)."""

    def __init__(self, st):
        self.st = st

    def __getitem__(self, idx):
        st = self.st
        if idx != st.pos and not st.ended:
            st.world.bad("seq:out-of-order-index")
        it = st.step()
        if it is _END:
            raise IndexError(idx)
        return it


async def _agen_source(st):
    w = st.world
    try:
        while True:
            st.started = True
            st.active += 1
            if st.active > 1:
                st.overlap = True
            try:
                for _ in range(w.susp):
                    await Suspend(w)
                it = st.step()
            finally:
                st.active -= 1
            if it is _END:
                return
            yield it
            del it
    finally:
        if not st.ended:
            if w.close_susp and not st.closing:
                # a close that has to suspend (e.g. network shutdown): cannot complete when the
                # generator is merely garbage collected
                st.closing = True
                try:
                    for _ in range(w.close_susp):
                        await Suspend(w)
                except BaseException:
                    st.close_interrupted = True
                    raise
            st.closed += 1
            w.log.append(("close", st.sid))


class AsyncBareSource:
    """Class based async iterator without aclose/asend/athrow."""

    def __init__(self, st):
        self.st = st

    def __aiter__(self):
        return self

    async def __anext__(self):
        st = self.st
        w = st.world
        if st.closed:
            st.pull_after_close = True
            raise StopAsyncIteration
        if st.ended:  # re-polling an exhausted source: not an event, no suspension
            if getattr(w, "repoll_events", False):
                st.step()
            raise StopAsyncIteration
        st.started = True
        st.active += 1
        if st.active > 1:
            st.overlap = True
        try:
            for _ in range(w.susp):
                await Suspend(w)
            it = st.step()
        finally:
            st.active -= 1
        if it is _END:
            raise StopAsyncIteration
        return it


class AsyncClsSource(AsyncBareSource):
    """Class based async iterator with aclose (but no asend/athrow)."""

    async def aclose(self):
        st = self.st
        try:
            for _ in range(st.world.close_susp):
                await Suspend(st.world)
        except BaseException:
            # interrupted inside the source's own close: the source was told to close, what
            # becomes of it is its own business (not the library's)
            st.close_interrupted = True
            raise
        if not st.closed and not st.ended:
            st.world.log.append(("close", st.sid))
        st.closed += 1
        return st.world.aclose_ret


class LoggingList(list):
    """A real list (a Sequence) whose iteration is instrumented."""

    def __init__(self, st):
        list.__init__(self, st.items)
        self._st = st

    def __iter__(self):
        st = self._st
        # every new iteration starts over (re-iterable, unlike an iterator)
        st.pos = 0
        st.ended = False
        return SyncIter(st)


class AsyncIterableOf:
    """An async *iterable* (no __anext__/aclose itself) whose __aiter__ hands out a closeable
    class-based iterator."""

    def __init__(self, st):
        self.st = st

    def __aiter__(self):
        return AsyncClsSource(self.st)


class AsyncDualSource(AsyncClsSource):
    """Async iterator (with aclose) that is *also* a sync iterable: the async protocol must win."""

    def __iter__(self):
        self.st.world.bad("source:sync-protocol-used-on-an-async-iterator")
        return iter(())


class AsyncFullSource(AsyncClsSource):
    """Class based async iterator offering the whole generator protocol."""

    def asend(self, value):
        return self.__anext__()

    async def athrow(self, exc):
        self.st.closed += 1
        self.st.world.log.append(("close", self.st.sid))
        raise exc


# ---------------------------------------------------------------------------
# drivers
# ---------------------------------------------------------------------------
class Suspended(Exception):
    """A coroutine that had to finish synchronously suspended."""


class Deadlocked(Exception):
    """A hand-driven coroutine waits for a lock that nobody is left to release."""


class Driver:
    """Drives awaitables by hand. No event loop.

    cancel_at = k > 0: the k-th suspension (counted over the life of the driver) is
    answered by throwing `cancel_exc` into the coroutine instead of the reply.
    """

    def __init__(self, world, cancel_at=0, cancel_exc=None, sync_only=False):
        self.w = world
        self.cancel_at = cancel_at
        self.cancel_exc = cancel_exc
        self.sync_only = sync_only
        self.nsusp = 0
        self.cancelled = False
        self.cancel_token = None

    def run(self, awaitable):
        it = awaitable.__await__()
        w = self.w
        send = None
        throw = None
        while True:
            try:
                if throw is not None:
                    exc, throw = throw, None
                    tok = it.throw(exc)
                else:
                    tok = it.send(send)
            except StopIteration as stop:
                return stop.value
            self.nsusp += 1
            if self.sync_only:
                try:
                    it.close()
                except BaseException:
                    pass
                w.bad("c17:suspended-with-sync-arguments")
                raise Suspended()
            if type(tok) is not Token or tok.world is not w or tok not in w.pending:
                w.bad("c17:foreign-suspension")
                send = None
                self.nforeign = getattr(self, "nforeign", 0) + 1
                if self.nforeign > 8:  # something spins on suspensions nobody handed out
                    try:
                        it.close()
                    except BaseException:
                        pass
                    raise Suspended()
                continue
            w.pending.remove(tok)
            if tok.kind == "block" and tok.lock is not None and tok.lock.held:
                # single driver: nobody else can release the lock
                w.bad("deadlock:waiting-for-a-lock-that-is-never-released")
                try:
                    it.close()
                except BaseException:
                    pass
                raise Deadlocked()
            if self.cancel_at and self.nsusp == self.cancel_at and not self.cancelled:
                self.cancelled = True
                self.cancel_token = tok
                throw = self.cancel_exc
            else:
                send = tok.reply

    def anext(self, ait):
        return self.run(ait.__anext__())

    def take(self, ait, j):
        """Pull up to j items. Returns (items, ending) with ending in
        None (not finished) / 'stop' / exception object."""
        out = []
        for _ in range(j):
            try:
                out.append(self.anext(ait))
            except StopAsyncIteration:
                return out, "stop"
            except Suspended:
                raise
            except BaseException as e:  # noqa
                if _is_crosshair_control(e):
                    raise
                return out, e
        return out, None

    def call(self, awaitable):
        """Run to completion; returns ('ok', value) or ('exc', exception)."""
        try:
            return ("ok", self.run(awaitable))
        except Suspended:
            raise
        except BaseException as e:  # noqa
            if _is_crosshair_control(e):
                raise
            return ("exc", e)

    def aclose(self, ait):
        ac = getattr(ait, "aclose", None)
        if ac is None:
            return ("ok", None)
        return self.call(ac())


def _is_crosshair_control(e):
    m = type(e).__module__ or ""
    if getattr(e, "ours", False):
        return False
    return m.startswith("crosshair") or m.startswith("z3") or isinstance(e, (HarnessError, KeyboardInterrupt, SystemExit, RecursionError, MemoryError))


def take_sync(it, j):
    out = []
    for _ in range(j):
        try:
            out.append(next(it))
        except StopIteration:
            return out, "stop"
        except BaseException as e:  # noqa
            if _is_crosshair_control(e):
                raise
            return out, e
    return out, None


def call_sync(f, *a, **k):
    try:
        return ("ok", f(*a, **k))
    except BaseException as e:  # noqa
        if _is_crosshair_control(e):
            raise
        return ("exc", e)


def same_ending(ea, es, fault=None):
    """Compare endings of the two worlds: both unfinished / both stopped / same
    exception type (and, for an injected fault, that very object)."""
    if ea is None or es is None or ea == "stop" or es == "stop":
        return ea is es or (ea == "stop" and es == "stop")
    if fault is not None and (es is fault or ea is fault):
        return ea is es
    return type(ea) is type(es)


def same_outcome(ra, rs, fault=None, eq=same):
    if ra[0] != rs[0]:
        return False
    if ra[0] == "ok":
        return eq(ra[1], rs[1])
    if fault is not None and (ra[1] is fault or rs[1] is fault):
        return ra[1] is rs[1]
    return type(ra[1]) is type(rs[1])


# ---------------------------------------------------------------------------
# locks and scheduler
# ---------------------------------------------------------------------------
class Lock:
    """Async context manager lock. A task finding it taken suspends with a 'block'
    token and is not runnable until the lock is free; all waiters re-contend."""

    def __init__(self, world, enter_susp=0, exit_susp=0):
        self.w = world
        self.held = False
        self.enter_susp = enter_susp
        self.exit_susp = exit_susp
        self.acquired = 0
        world.locks.append(self)

    async def __aenter__(self):
        for _ in range(self.enter_susp):
            await Suspend(self.w)
        while self.held:
            await Suspend(self.w, "block", self)
        self.held = True
        self.acquired += 1
        return None

    async def __aexit__(self, et, ev, tb):
        if not self.held:
            self.w.bad("lock:released-while-free")
        self.held = False
        for _ in range(self.exit_susp):
            await Suspend(self.w)
        return None


class Task:
    __slots__ = ("name", "it", "state", "value", "tok", "steps", "cancel_at", "nsusp", "cancel_exc")

    def __init__(self, name, awaitable, cancel_at=0, cancel_exc=None):
        self.name = name
        self.it = awaitable.__await__()
        self.state = "ready"  # ready / done / failed
        self.value = None
        self.tok = None
        self.steps = 0
        self.cancel_at = cancel_at
        self.cancel_exc = cancel_exc
        self.nsusp = 0


class Choices:
    """Fixed vector of (symbolic) choice ints; running out is an unwinding failure."""

    def __init__(self, ints):
        self.ints = list(ints)
        self.i = 0
        self.trace = []

    def pick(self, n):
        if n <= 1:
            self.trace.append(0)
            return 0
        if self.i >= len(self.ints):
            raise HarnessError("unwinding: choice vector too short (%d used)" % self.i)
        c = self.ints[self.i]
        self.i += 1
        # any int maps onto a valid choice; forks over the n alternatives
        for v in range(n - 1):
            if c == v:
                self.trace.append(v)
                return v
        self.trace.append(n - 1)
        return n - 1


def schedule(world, tasks, choices, on_step=None, max_steps=400):
    """Run tasks to completion under the schedule given by `choices`.
    A task whose last token is a 'block' on a held lock is not runnable.
    Deadlock (no runnable but unfinished tasks) is recorded as a violation."""
    steps = 0
    while True:
        runnable = []
        unfinished = 0
        for t in tasks:
            if t.state != "ready":
                continue
            unfinished += 1
            tok = t.tok
            if tok is not None and tok.kind == "block" and tok.lock.held:
                continue
            runnable.append(t)
        if not unfinished:
            break
        if not runnable:
            world.bad("sched:deadlock")
            break
        t = runnable[choices.pick(len(runnable))]
        steps += 1
        if steps > max_steps:
            raise HarnessError("unwinding: too many scheduler steps")
        try:
            tok = t.tok
            if tok is None:
                new = t.it.send(None)
            else:
                t.nsusp += 1
                if t.cancel_at and t.nsusp == t.cancel_at:
                    new = t.it.throw(t.cancel_exc)
                else:
                    new = t.it.send(tok.reply)
        except StopIteration as stop:
            t.state = "done"
            t.value = stop.value
            t.tok = None
        except BaseException as e:  # noqa
            if _is_crosshair_control(e):
                raise
            t.state = "failed"
            t.value = e
            t.tok = None
        else:
            if type(new) is not Token or new.world is not world or new not in world.pending:
                world.bad("c17:foreign-suspension")
                t.tok = Token(world, -1)
            else:
                world.pending.remove(new)
                t.tok = new
        t.steps += 1
        if on_step is not None:
            on_step(t)
    STATS["steps"] += steps
    return steps


# ---------------------------------------------------------------------------
# weak references (C20)
# ---------------------------------------------------------------------------
class Obj:
    __slots__ = ("n", "__weakref__")

    def __init__(self, n):
        self.n = n

    def __lt__(self, other):
        return self.n < other.n

    def __add__(self, other):
        return Obj(0)

    def __radd__(self, other):
        return Obj(0)

    def __bool__(self):
        return True


def alive(refs):
    gc.collect()
    n = 0
    for r in refs:
        if weakref.ref.__call__(r) is not None:
            n += 1
    return n
