"""C09 — tee children all see the full source sequence under every interleaving."""
import asyncstdlib as A

from .world import P, World, Item, Lock, Suspend, Cancel, Task, Choices, schedule, Driver, fail, finish, reset_run, HarnessError

PROPERTY = "C09"
LEVEL = "model_checking"


def _pre(n, susp, j, k):
    ok = 0 <= n <= P("N", 2) and 0 <= susp <= P("SUSP", 0) and 0 <= j <= P("J", 0) and 0 <= k <= P("K", 0)
    fx = P("fix", {})
    vals = {"n": n, "susp": susp, "j": j, "k": k}
    for nm in fx:
        ok = ok and vals[nm] == fx[nm]
    return ok


def _body(cs, n, susp, j, k):
    reset_run()
    C = P("C", 2)
    pause = P("pause", 0)
    use_lock = P("lock", True)
    items = [Item(0, "0.%d" % i) for i in range(n)]
    if P("none_item") is not None and P("none_item") < n:
        items[P("none_item")] = None  # None is an item like any other
    W = World("a", susp=susp)
    lock = Lock(W, enter_susp=P("lock_susp", 0), exit_susp=P("lock_exit_susp", 0)) if use_lock else None
    src = W.source(items, P("fl", "acls"))
    st = W.srcs[0]
    t = A.tee(src, C, lock=lock) if use_lock else A.tee(src, C)
    kids = [t[i] for i in range(C)]
    results = [[] for _ in range(C)]
    ended = [None] * C
    # child 0 is closed early after j items (j == 0: never closed early; j > n: never reached)
    close_after = [j if (i == 0 and P("J", 0)) else 0 for i in range(C)]

    inside = [0]

    async def consumer(i):
        child = kids[i]
        while True:
            inside[0] += 1
            try:
                item = await child.__anext__()
            except StopAsyncIteration:
                ended[i] = "stop"
                break
            finally:
                inside[0] -= 1
            if lock is not None and lock.held and inside[0] == 0:
                # nobody is advancing a child, yet the lock is still taken
                W.bad("tee:lock-held-while-no-child-is-being-advanced")
            results[i].append(item)
            for _ in range(pause):
                await Suspend(W)
            if close_after[i] and len(results[i]) == close_after[i]:
                await child.aclose()
                ended[i] = "closed"
                break

    cancel = Cancel("c")
    tasks = []
    for i in range(C):
        # the last consumer is the one that may be cancelled at its k-th suspension
        ck = k if (i == C - 1 and P("K", 0)) else 0
        tasks.append(Task("c%d" % i, consumer(i), cancel_at=ck, cancel_exc=cancel))
    choices = Choices(cs)
    schedule(W, tasks, choices)
    ok = True
    cancelled = False
    for i, tk in enumerate(tasks):
        if tk.state == "failed":
            if tk.value is cancel:
                cancelled = True
                ended[i] = "cancelled"
            else:
                ok = fail("tee:consumer-failed-%s" % type(tk.value).__name__, (choices.trace, tk.value)) and ok
    src_killed = st.flavour == "agen" and st.obj.ag_frame is None and not st.ended and cancelled
    for i in range(C):
        got = results[i]
        if len(got) > len(items) or any(a is not b for a, b in zip(got, items)):
            ok = fail("tee:child-items-not-a-prefix-of-source", (choices.trace, i, got)) and ok
        elif ended[i] == "stop" and len(got) != len(items) and not src_killed:
            ok = fail("tee:child-lost-items", (choices.trace, i, got)) and ok
        elif ended[i] == "closed" and len(got) != close_after[i]:
            ok = fail("tee:closed-child-item-count", (choices.trace, i, got)) and ok
    if use_lock and st.overlap:
        ok = fail("tee:source-advanced-by-two-consumers-at-once", choices.trace) and ok
    if lock is not None and lock.held:
        ok = fail("tee:lock-held-at-quiescence", choices.trace) and ok
    # the owner of a cancelled consumer closes its child; afterwards the source is released
    D = Driver(W)
    for i in range(C):
        if ended[i] == "cancelled":
            r = D.aclose(kids[i])
            if r[0] == "exc":
                ok = fail("tee:aclose-of-cancelled-child-raised") and ok
    if not st.is_released():
        ok = fail("tee:source-not-released-when-all-children-done", (choices.trace, ended)) and ok
    if st.closed > 1:
        ok = fail("tee:source-closed-more-than-once") and ok
    nitems = len(items)
    if cancelled and all(e in ("stop", "cancelled") for e in ended):
        # a cancelled consumer's child is dead: nothing may be buffered for it any more once the
        # surviving children have taken everything (the handle and the children are still referenced)
        import gc
        import weakref

        refs = [weakref.ref(x) for x in items if x is not None]
        for got in results:
            del got[:]
        got = None
        del items[:]
        del st.items[:]
        # the traceback of the delivered exception keeps the dead frames (and their locals) alive
        cancel.__traceback__ = None
        for tk in tasks:
            if isinstance(tk.value, BaseException):
                tk.value.__traceback__ = None
        gc.collect()
        alive = 0
        for r_ in refs:
            if r_() is not None:
                alive += 1
        if alive and P("debug_refs", False):
            for r_ in refs:
                o_ = r_()
                if o_ is not None:
                    for rr in gc.get_referrers(o_):
                        print("REFERRER", type(rr), repr(rr)[:300])
                        if isinstance(rr, (list, tuple, dict)):
                            for r2 in gc.get_referrers(rr):
                                print("   <-", type(r2), repr(r2)[:200])
        if alive:
            ok = fail("tee:items-still-buffered-for-a-cancelled-child", (choices.trace, alive)) and ok
    for v in W.viol:
        ok = fail("tee:%s" % v, choices.trace) and ok
    switches = 0
    for a, b in zip(choices.trace, choices.trace[1:]):
        if a != b:
            switches += 1
    return finish(ok, nitems >= 1 and switches >= 1, ("tee", C, nitems, susp, tuple(choices.trace)))


from .sched import define, NCH  # noqa: E402

h_tee = define("h_tee", "n: int, susp: int, j: int, k: int", "n, susp, j, k", "_pre", "_body", globals())


def _grid():
    import random

    rnd = random.Random(47)
    fx = P("fix", {})
    out = []
    for _ in range(200):
        out.append(tuple([rnd.randint(0, 3) for _ in range(NCH)] + [fx.get("n", rnd.randint(0, P("N", 2))), fx.get("susp", rnd.randint(0, P("SUSP", 0))), fx.get("j", rnd.randint(0, P("J", 0))), fx.get("k", rnd.randint(0, P("K", 0)))]))
    return out


GRID = {"h_tee": _grid}


def jobs(tier):
    q = tier == "quick"
    T = 400 if q else 900
    J = []

    def add(**part):
        J.append({"module": "c09", "fn": "h_tee", "part": part, "timeout": T})

    for fl in ("acls", "agen"):
        # with lock: sources suspending 0..2 times per item
        add(C=2, N=2, SUSP=2, lock=True, pause=0, fl=fl)
        add(C=2, N=2, SUSP=1, lock=True, pause=1, fl=fl, lock_susp=0)
        add(C=2, N=(1 if q else 2), SUSP=1, lock=True, pause=0, fl=fl, lock_susp=1)
        add(C=2, N=2, SUSP=0, lock=True, pause=0, fl=fl, lock_exit_susp=1)
        add(C=2, N=(1 if q else 2), SUSP=1, lock=True, pause=0, fl=fl, lock_exit_susp=1)
        add(C=3, N=(1 if q else 2), SUSP=1, lock=True, pause=0, fl=fl)
        # without lock: only non-suspending sources (the property's own condition)
        add(C=2, N=(2 if q else 3), SUSP=0, lock=False, pause=1, fl=fl)
        add(C=3, N=2, SUSP=0, lock=False, pause=(0 if q else 1), fl=fl)
        # early close of child 0 after j items, others continue
        add(C=2, N=2, SUSP=1, lock=True, pause=0, J=2, fl=fl)
        add(C=3, N=(1 if q else 2), SUSP=0, lock=False, pause=1, J=2, fl=fl)
        # one consumer cancelled at its k-th suspension
        add(C=2, N=2, SUSP=1, lock=True, pause=0, K=4, fl=fl)
        add(C=2, N=2, SUSP=0, lock=False, pause=1, K=3, fl=fl)
        add(C=2, N=(1 if q else 2), SUSP=1, lock=True, pause=1, K=4, fl=fl)
    # retention ("an item is retained only until the slowest live child has yielded it"): the
    # exact weak-reference oracle of C20's tee harness, for sequential progress patterns
    for closeat in (3, 8):
        J.append({"module": "c20", "fn": "h_tee", "part": {"L": 8, "closeat": closeat}, "timeout": T})
    add(C=2, N=2, SUSP=1, lock=True, pause=0, fl="adual")
    add(C=2, N=2, SUSP=1, lock=True, pause=0, fl="acls", none_item=0)
    add(C=2, N=2, SUSP=0, lock=False, pause=1, fl="agen", none_item=1)
    add(C=2, N=1, SUSP=2, lock=True, pause=1, fl="adual")
    if not q:
        add(C=4, N=1, SUSP=1, lock=True, pause=0, fl="acls")
        add(C=4, N=1, SUSP=0, lock=False, pause=1, fl="acls")
        add(C=2, N=3, SUSP=2, lock=True, pause=0, fl="acls", fix={"n": 3})
        add(C=2, N=3, SUSP=1, lock=True, pause=1, fl="acls", fix={"n": 3})
    return J


BOUNDS = {
    "quick": "all interleavings (symbolic choice vector, every suspension point a scheduling point) of 2..3 consumers; source length 0..2, 0..2 suspensions per source item, consumer pause 0..1, lock present (incl. suspending acquire and suspending release) or absent (non-suspending sources only), child 0 closed after j<=2 items, last consumer cancelled at its k-th suspension (k<=4); sources class-based and async generators; None as an item; after a cancellation nothing stays buffered for the dead child (weak references at quiescence)",
    "thorough": "additionally 4 consumers with length 1, 2 consumers with length 3",
}
OUTSIDE = ["retention is measured for sequential progress patterns of two children only (shared with C20)", "4 consumers with length > 1, length 4, 3 consumers with length 2 and pause 1 (2*10^5 schedules)", "more than one early close / cancellation per run"]
NONTRIVIAL_RULE = ">=1 source item and >=1 context switch in the schedule"
ASSUMPTIONS = ["scheduler: every harness suspension is a scheduling point; a task blocked on a held lock is not runnable; all waiters re-contend on release (covers FIFO and barging locks)", "running out of the 28 choice ints is an unwinding failure (exit 2), never a pass"]

MANIFEST = {
    "text": "Bounded model checking on the implementation: the schedule is a vector of symbolic choice ints, every harness suspension is a scheduling point, CrossHair's exhausted path tree is the complete set of interleavings within the bound; per schedule: every child a prefix/full copy of the source sequence, no overlapping __anext__ under a lock, lock never held while no child is advanced, source released once at the end. Nothing is claimed outside the bounds listed in the evidence file.",
    "note": 'Trusted: CrossHair 0.0.110 (with short-circuiting off and a refined callable() model), z3 5.1.0, the harness oracles. Harness lock: non-runnable while held, all waiters re-contend on release; running out of choice ints is an unwinding failure (exit 2).',
}
