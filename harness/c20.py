"""C20 — streaming tools retain a bounded number of items however long the stream."""
import gc
import weakref

import asyncstdlib as A

from .world import P, World, Driver, Obj, fail, finish, Suspended, reset_run, alive

PROPERTY = "C20"


class Stream:
    """Async generator source that creates weak-referenceable items on the fly, keeps only weak
    references and records how many earlier items are still alive at every pull."""

    def __init__(self, L, base=0, step=1):
        self.refs = []
        self.L = L
        self.base = base
        self.step = step
        self.max_alive = 0
        self.samples = []
        self.group = None
        self.text = False
        self.inner = False

    def measure(self):
        a = alive(self.refs if self.group is None else self.group.allrefs())
        self.samples.append(a)
        if a > self.max_alive:
            self.max_alive = a
        return a

    async def gen(self):
        for i in range(self.L):
            self.measure()
            o = WStr("x") if self.text else (Inner(i) if self.inner else Obj(self.base + i * self.step))
            self.refs.append(weakref.ref(o))
            yield o
            del o
        self.measure()


def _sgen(self):
    """Lazy *sync* generator of the stream's items."""
    for i in range(self.L):
        self.measure()
        o = Obj(self.base + i * self.step)
        self.refs.append(weakref.ref(o))
        yield o
        del o
    self.measure()


def _sized(self):
    """A re-iterable, *sized* view that still creates its items on demand."""
    st = self

    class SizedLazy:
        def __len__(self_):
            return st.L

        def __iter__(self_):
            return _sgen(st)

    return SizedLazy()


class Inner:
    """A tiny async iterator (weakly referenceable) used as an item of an outer stream."""

    def __init__(self, n):
        self.n = n
        self.done = False

    def __aiter__(self):
        return self

    async def __anext__(self):
        if self.done:
            raise StopAsyncIteration
        self.done = True
        return self.n


class ReadyAw:
    """A weakly referenceable awaitable."""

    def __init__(self, n):
        self.n = n

    def __await__(self):
        return self.n
        yield


class SyncStream:
    """Lazy *sync* generator of awaitables for await_each."""

    def __init__(self, L):
        self.refs = []
        self.L = L
        self.max_alive = 0
        self.samples = []

    def gen(self):
        for i in range(self.L):
            a = alive(self.refs)
            self.samples.append(a)
            self.max_alive = max(self.max_alive, a)
            o = ReadyAw(i)
            self.refs.append(weakref.ref(o))
            yield o
            del o
        a = alive(self.refs)
        self.max_alive = max(self.max_alive, a)


class WStr(str):
    """A str that can be weakly referenced."""


class Group:
    def __init__(self, streams):
        self.streams = streams
        for s in streams:
            s.group = self

    def allrefs(self):
        out = []
        for s in self.streams:
            out.extend(s.refs)
        return out


def _true(x):
    return True


def _false(x):
    return False


def _first(*xs):
    return None


# name -> (builder(streams, n) -> async iterator or awaitable, number of sources, kind, bound(n))
def _mk():
    T = {}
    T["map"] = (lambda s, n: A.map(_first, s[0].gen()), 1, "it", lambda n: 2)
    T["map2"] = (lambda s, n: A.map(_first, s[0].gen(), s[1].gen()), 2, "it", lambda n: 4)
    T["filter_true"] = (lambda s, n: A.filter(_true, s[0].gen()), 1, "it", lambda n: 2)
    T["filter_false"] = (lambda s, n: A.filter(_false, s[0].gen()), 1, "it", lambda n: 2)
    T["filter_none"] = (lambda s, n: A.filter(None, s[0].gen()), 1, "it", lambda n: 2)
    T["zip"] = (lambda s, n: A.zip(s[0].gen(), s[1].gen()), 2, "it", lambda n: 4)
    T["zip_strict"] = (lambda s, n: A.zip(s[0].gen(), s[1].gen(), strict=True), 2, "it", lambda n: 4)
    T["enumerate"] = (lambda s, n: A.enumerate(s[0].gen()), 1, "it", lambda n: 2)
    T["accumulate"] = (lambda s, n: A.accumulate(s[0].gen(), _first, initial=None), 1, "it", lambda n: 2)
    T["batched"] = (lambda s, n: A.batched(s[0].gen(), n), 1, "it", lambda n: n + 2)
    T["chain"] = (lambda s, n: A.chain(s[0].gen(), s[1].gen()), 2, "it", lambda n: 3)
    T["compress"] = (lambda s, n: A.compress(s[0].gen(), s[1].gen()), 2, "it", lambda n: 4)
    T["dropwhile"] = (lambda s, n: A.dropwhile(lambda x: x.n < 3, s[0].gen()), 1, "it", lambda n: 2)
    T["filterfalse"] = (lambda s, n: A.filterfalse(_false, s[0].gen()), 1, "it", lambda n: 2)
    T["islice"] = (lambda s, n: A.islice(s[0].gen(), 2, None, n), 1, "it", lambda n: 2)
    T["islice_skip5"] = (lambda s, n: A.islice(s[0].gen(), 5, None), 1, "it", lambda n: 2)
    T["map_sized_sync"] = (lambda s, n: A.map(_first, _sized(s[0])), 1, "it", lambda n: 2)
    T["zip_sized_sync"] = (lambda s, n: A.zip(_sized(s[0]), s[1].gen()), 2, "it", lambda n: 4)
    T["min_sized_sync"] = (lambda s, n: A.min(_sized(s[0])), 1, "aw", lambda n: 3)
    T["pairwise"] = (lambda s, n: A.pairwise(s[0].gen()), 1, "it", lambda n: 3)
    T["starmap"] = (lambda s, n: A.starmap(_first, A.zip(s[0].gen())), 1, "it", lambda n: 2)
    T["takewhile"] = (lambda s, n: A.takewhile(_true, s[0].gen()), 1, "it", lambda n: 2)
    T["zip_longest"] = (lambda s, n: A.zip_longest(s[0].gen(), s[1].gen()), 2, "it", lambda n: 4)
    T["merge"] = (lambda s, n: A.merge(s[0].gen(), s[1].gen()), 2, "it", lambda n: 4)
    T["merge_key"] = (lambda s, n: A.merge(s[0].gen(), s[1].gen(), key=lambda o: o.n), 2, "it", lambda n: 4)
    T["groupby"] = (lambda s, n: A.groupby(s[0].gen(), key=lambda o: o.n // 2), 1, "it", lambda n: 3)
    T["groupby_nokey"] = (lambda s, n: A.groupby(s[0].gen()), 1, "it", lambda n: 3)
    T["sum_str"] = (lambda s, n: A.sum(s[0].gen(), ""), 1, "aw", lambda n: 2)
    T["chain_from_stream"] = (lambda s, n: A.chain.from_iterable(s[0].gen()), 1, "it", lambda n: 2)
    T["await_each"] = (lambda s, n: A.await_each(s[0].gen()), 1, "it", lambda n: 2)
    T["any_iter"] = (lambda s, n: A.any_iter(s[0].gen()), 1, "it", lambda n: 2)
    T["borrow"] = (lambda s, n: A.borrow(s[0].gen()), 1, "it", lambda n: 2)
    T["all"] = (lambda s, n: A.all(s[0].gen()), 1, "aw", lambda n: 2)
    T["any"] = (lambda s, n: A.any(A.map(_false, s[0].gen())), 1, "aw", lambda n: 2)
    T["sum"] = (lambda s, n: A.sum(s[0].gen(), Obj(0)), 1, "aw", lambda n: 2)
    T["min"] = (lambda s, n: A.min(s[0].gen()), 1, "aw", lambda n: 3)
    T["max"] = (lambda s, n: A.max(s[0].gen(), key=lambda o: o.n), 1, "aw", lambda n: 3)
    T["reduce"] = (lambda s, n: A.reduce(_first, s[0].gen(), None), 1, "aw", lambda n: 2)
    T["nlargest"] = (lambda s, n: A.nlargest(s[0].gen(), n), 1, "aw", lambda n: n + 2)
    T["nsmallest"] = (lambda s, n: A.nsmallest(s[0].gen(), n, key=lambda o: o.n), 1, "aw", lambda n: n + 2)
    # all items equal (ties with the current worst candidate)
    T["nlargest_ties"] = (lambda s, n: A.nlargest(s[0].gen(), n, key=lambda o: 0), 1, "aw", lambda n: n + 2)
    T["nsmallest_ties"] = (lambda s, n: A.nsmallest(s[0].gen(), n, key=lambda o: o.n % 2), 1, "aw", lambda n: n + 2)
    T["min_ties"] = (lambda s, n: A.min(s[0].gen(), key=lambda o: 0), 1, "aw", lambda n: 3)
    T["max_ties"] = (lambda s, n: A.max(s[0].gen(), key=lambda o: 0), 1, "aw", lambda n: 3)
    T["merge_ties"] = (lambda s, n: A.merge(s[0].gen(), s[1].gen(), key=lambda o: 0), 2, "it", lambda n: 4)
    return T


TABLE = _mk()


def h_retain(L: int, n: int):
    """
    pre: 0 <= L <= P("L", 12) and 1 <= n <= 3
    pre: P("Lfix") is None or L == P("Lfix")
    post: _[0]
    post: not _[1]
    """
    reset_run()
    name = P("tool")
    build, nsrc, kind, bound = TABLE[name]
    W = World("a")
    D = Driver(W, sync_only=True)
    streams = [Stream(L, base=0, step=2), Stream(L, base=1, step=2)][:nsrc]
    if nsrc > 1:
        Group(streams)
    if name == "sum_str":
        streams[0].text = True
    if name == "chain_from_stream":
        streams[0].inner = True
    if name == "await_each":
        streams = [SyncStream(L)]
    nn = 1
    for v in (1, 2, 3):
        if n == v:
            nn = v
    if name not in ("batched", "islice", "nlargest", "nsmallest", "nlargest_ties", "nsmallest_ties"):
        nn = 1
    ok = True
    steps = 0
    try:
        obj = build(streams, nn)
        if kind == "aw":
            r = D.call(obj)
            del r
        else:
            while True:
                got, end = D.take(obj, 1)
                if got and name in ("groupby", "groupby_nokey"):
                    D.take(got[0][1], 3)  # read the group to its end, then drop it
                del got
                steps += 1
                if end is not None:
                    break
                if steps > 4 * L + 8:
                    break
    except Suspended:
        return finish(fail("%s:suspended-with-nonsuspending-arguments" % name), False)
    worst = max(s.max_alive for s in streams)
    K = bound(nn)
    if worst > K:
        ok = fail("%s:retains-%d-items(bound-%d)" % (name, worst, K), (L, streams[0].samples)) and ok
    produced = sum(len(s.refs) for s in streams)
    return finish(ok, produced >= 6, ("retain", name, L, nn, worst))


def h_tee(L: int, o0: int, o1: int, o2: int, o3: int, o4: int, o5: int, o6: int, o7: int, closeat: int):
    """
    pre: L == P("L", 8) and closeat == P("closeat", 8)
    pre: all(0 <= o <= 1 for o in (o0, o1, o2, o3, o4, o5)) and o6 == 0 and o7 == 0
    post: _[0]
    post: not _[1]
    """
    reset_run()
    W = World("a")
    D = Driver(W, sync_only=True)
    s = Stream(L)
    if P("src", "agen") == "bare":

        class Bare:  # async iterator without aclose
            def __init__(self, gen):
                self.gen = gen

            def __aiter__(self):
                return self

            def __anext__(self):
                return self.gen.__anext__()

        t = A.tee(Bare(s.gen()), 2)
    else:
        t = A.tee(s.gen(), 2)
    kids = [t[0], t[1]]
    pos = [0, 0]
    live = [True, True]
    closed_unadvanced = False
    lastfetch = [None, None]  # index of the item each child fetched itself last (kept in its frame)
    ok = True
    trace = []
    for i, o in enumerate((o0, o1, o2, o3, o4, o5, o6, o7)):
        c = 1 if o == 1 else 0
        if i == closeat and live[1]:
            D.aclose(kids[1])
            live[1] = False
            lastfetch[1] = None
            closed_unadvanced = pos[1] == 0
            trace.append("close1")
        if not live[c]:
            c = 0
        fetched_before = len(s.refs)
        got, end = D.take(kids[c], 1)
        if len(s.refs) > fetched_before:
            lastfetch[c] = len(s.refs) - 1
        if end == "stop":
            lastfetch[c] = None  # the child's generator has finished: its frame is gone
        pos[c] += len(got)
        del got
        trace.append(c)
        a = alive(s.refs)
        # exactly the items not yet yielded by the slowest live child, plus the one item each
        # child that fetched from the source still holds in its frame
        keep = set(range(min(pos[k] for k in (0, 1) if live[k]), len(s.refs)))
        for k in (0, 1):
            if lastfetch[k] is not None:
                keep.add(lastfetch[k])
        if s.refs and len(s.refs) <= s.L:
            keep.add(len(s.refs) - 1)  # the source generator itself still holds the item it produced last
        lead = len(keep)
        if a > lead:
            if closed_unadvanced:
                ok = fail("tee:keeps-buffering-for-a-child-closed-before-it-was-ever-advanced", (a, lead, trace)) and ok
            else:
                ok = fail("tee:retains-items-the-slowest-live-child-has-already-yielded", (a, lead, trace)) and ok
            break
    D.run(t.aclose())
    return finish(ok, max(pos) >= 3 or closed_unadvanced, ("tee", L, tuple(trace)))


GRID = {
    "h_retain": lambda: [(L, n) for L in (0, 1, 2, 5, 9, 12, 30, 60, 200) for n in (1, 2, 3)],
    "h_tee": lambda: [(8, a, b, c, d, a, b, 0, 0, P("closeat", 8)) for a in (0, 1) for b in (0, 1) for c in (0, 1) for d in (0, 1)],
}


def jobs(tier):
    q = tier == "quick"
    T = 400 if q else 900
    J = []
    for name in sorted(TABLE):
        J.append({"module": "c20", "fn": "h_retain", "part": {"tool": name, "L": (12 if q else (24 if TABLE[name][1] == 1 else 16))}, "timeout": T})
    for closeat in range(0, 8):
        J.append({"module": "c20", "fn": "h_tee", "part": {"L": 8, "closeat": closeat}, "timeout": T})
    for closeat in (1, 3, 8):
        J.append({"module": "c20", "fn": "h_tee", "part": {"L": 8, "closeat": closeat, "src": "bare"}, "timeout": T})
    return J


LEVEL = "other"
BOUNDS = {
    "quick": "stream length L = 0..12 (symbolic), window n = 1..3 (batched size, islice step, nlargest/nsmallest n); live source items counted (weak references after gc.collect()) at every pull of every source, i.e. after every consumer step; 28 streaming tools / forms and 9 single-pass aggregations (incl. sync sources that are sized but create their items lazily, and islice skipping 5 items); tee: 2 children over 8 items, every progress pattern of 6 symbolic + 2 fixed steps, child 1 closed early before step 0..6 or never; the concrete pre-flight additionally runs L=30, 60 and 200",
    "thorough": "L = 0..24 (two-source tools: L = 0..16; map and merge of two sources did not exhaust at 24)",
}
OUTSIDE = ["streams of 50..2000 items: the same constant bound is claimed only up to L (symbolically) and L=200 (pre-flight)", "cycle, lagging tee children, sorted and the collection builders accumulate by design"]
NONTRIVIAL_RULE = ">=6 source items produced on the path"
ASSUMPTIONS = ["object lifetimes are CPython reference counting plus gc.collect(); CrossHair's weakref model collects before dereferencing"]

MANIFEST = {
    "text": 'Weak references to source items are counted (after gc.collect()) at every pull for symbolic stream lengths; the count must stay below a per-tool constant plus the documented window; tee for every progress pattern with early close. Nothing is claimed outside the bounds listed in the evidence file.',
    "note": 'Trusted: CrossHair 0.0.110 (with short-circuiting off and a refined callable() model), z3 5.1.0, the harness oracles. Constant bound shown up to L<=12/24 symbolically and L=200 natively, not for 50..2000; one open known finding (tee child closed before ever advanced).',
}
