"""C16 — groupby matches itertools.groupby under every pattern of consuming groups."""
import itertools

import asyncstdlib as A

from .world import P, World, Driver, Item, fail, finish, Suspended, reset_run, take_sync
from .tools import KeyOf

PROPERTY = "C16"


class EqItem(Item):
    """Items that all compare equal to each other (like 1 and 1.0) while their keys differ."""

    __slots__ = ()

    def __eq__(self, other):
        return isinstance(other, EqItem)

    def __ne__(self, other):
        return not isinstance(other, EqItem)

    __hash__ = None


def _pre(n, o0, o1, o2, o3, o4, o5, o6, o7):
    L = P("L", 4)
    ok = 0 <= n <= P("N", 4)
    ops = (o0, o1, o2, o3, o4, o5, o6, o7)
    for i, o in enumerate(ops):
        if i < L:
            ok = ok and 0 <= o <= P("G", 3) + (1 if P("drop", False) else 0)
        else:
            ok = ok and o == 0
    if P("n") is not None:
        ok = ok and n == P("n")
    if P("o0") is not None:
        ok = ok and o0 == P("o0")
    if P("o1") is not None:
        ok = ok and o1 == P("o1")
    return ok


def _pool_ok(*ks):
    if not P("pool", False):
        return True
    ok = True
    for k in ks:
        ok = ok and 0 <= k <= 2
    return ok


def h_groupby(n: int, k0: int, k1: int, k2: int, k3: int, k4: int, k5: int, o0: int, o1: int, o2: int, o3: int, o4: int, o5: int, o6: int, o7: int):
    """
    pre: _pre(n, o0, o1, o2, o3, o4, o5, o6, o7)
    pre: _pool_ok(k0, k1, k2, k3, k4, k5)
    post: _[0]
    post: not _[1]
    """
    reset_run()
    L = P("L", 4)
    keys = [k0, k1, k2, k3, k4, k5]
    items = []
    for i in range(n):
        if P("pool", False):
            # plain values incl. None (identity of small ints / None is shared, equality is ==)
            v = None
            for c, cand in enumerate((None, 0, 1)):
                if keys[i] == c:
                    v = cand
            items.append(v)
        elif P("eqitems", False):
            items.append(EqItem(keys[i], "0.%d" % i))
        else:
            items.append(Item(keys[i], "0.%d" % i))
    keymode = P("key", "none")
    Wa, Ws = World("a"), World("s")
    D = Driver(Wa, sync_only=True)
    src_a = Wa.source(items, P("fl", "agen"))
    src_s = Ws.source(items, "iter")
    kcache = {}

    def keyf(it):
        # one key object per item, shared by both sides, so that identity can be compared
        if P("pool", False):
            return it
        if id(it) not in kcache:
            kcache[id(it)] = KeyOf(it)
        return kcache[id(it)]

    if keymode == "none":
        ga = A.groupby(src_a)
        gs = itertools.groupby(src_s)
    else:
        ga = A.groupby(src_a, key=Wa.fn("key", keyf, keymode))
        gs = itertools.groupby(src_s, Ws.fn("key", keyf))
    groups_a, groups_s = [], []
    ok = True
    trace = []
    served = 0
    ops = [o0, o1, o2, o3, o4, o5, o6, o7]
    try:
        for i in range(L):
            op = 0
            for v in range(P("G", 3) + 2):
                if ops[i] == v:
                    op = v
            if op == P("G", 3) + 1:
                # the caller drops the groupby object and keeps only the group handles
                trace.append("drop")
                ga = gs = None
                ra = rs = None
                continue
            if op == 0 and ga is None:
                trace.append("-")
                continue
            if op == 0:
                ra, ea = D.take(ga, 1)
                rs, es = take_sync(gs, 1)
                trace.append("G")
                if (ea == "stop") != (es == "stop") or len(ra) != len(rs) or (ea is not None and ea != "stop") or (es is not None and es != "stop"):
                    ok = fail("groupby:advance-differs", (trace, ra, rs, ea, es)) and ok
                    break
                if ra:
                    ka, gra = ra[0]
                    ks, grs = rs[0]
                    if ka is not ks:
                        ok = fail("groupby:key-object-differs", (trace, ka, ks)) and ok
                    groups_a.append(gra)
                    groups_s.append(grs)
            else:
                gi = op - 1
                if gi >= len(groups_s):
                    trace.append("-")
                    continue
                trace.append(gi)
                ra, ea = D.take(groups_a[gi], 1)
                rs, es = take_sync(groups_s[gi], 1)
                if len(ra) != len(rs) or (ra and ra[0] is not rs[0]) or (ea == "stop") != (es == "stop") or (ea is not None and ea != "stop"):
                    ok = fail("groupby:group-item-differs", (trace, ra, rs, ea, es)) and ok
                    break
                served += len(rs)
    except Suspended:
        return finish(fail("groupby:suspended-with-nonsuspending-arguments"), False)
    for v in Wa.viol:
        ok = fail("groupby:%s" % v) and ok
    return finish(ok, (len(groups_s) >= 1 and served >= 1) if len(items) else True, ("groupby", keymode, len(items), tuple(trace)))


def _grid():
    import random

    rnd = random.Random(41)
    L = P("L", 4)
    out = []
    for _ in range(300):
        n = P("n") if P("n") is not None else rnd.randint(0, P("N", 4))
        ops = [rnd.randint(0, P("G", 3)) if i < L else 0 for i in range(8)]
        if P("o0") is not None:
            ops[0] = P("o0")
        if P("o1") is not None:
            ops[1] = P("o1")
        if P("drop", False):
            ops = [o if (i >= L or rnd.random() < 0.8) else P("G", 3) + 1 for i, o in enumerate(ops)]
        out.append(tuple([n] + [rnd.choice([0, 0, 1, 1, 2]) for _ in range(6)] + ops))
    return out


GRID = {"h_groupby": _grid}


def jobs(tier):
    q = tier == "quick"
    T = 300 if q else 900
    J = []
    for key in ("none", "def", "adef"):
        if q:
            for n in range(0, 5):
                J.append({"module": "c16", "fn": "h_groupby", "part": {"N": 4, "n": n, "L": 5, "G": 2, "key": key, "fl": "agen"}, "timeout": T})
            J.append({"module": "c16", "fn": "h_groupby", "part": {"N": 3, "n": 3, "L": 3, "G": 2, "key": key, "fl": "acls", "pool": True}, "timeout": T})
        else:
            for n in (4, 5):
                for o1 in range(0, 4):
                    J.append({"module": "c16", "fn": "h_groupby", "part": {"N": 5, "n": n, "L": 6, "G": 3, "o0": 0, "o1": o1, "key": key, "fl": ("acls" if n % 2 else "agen")}, "timeout": T})
            for n in range(0, 4):
                J.append({"module": "c16", "fn": "h_groupby", "part": {"N": 5, "n": n, "L": 5, "G": 3, "key": key, "fl": ("acls" if n % 2 else "agen")}, "timeout": T})
    # items that compare equal while their keys differ; the groupby object dropped while group handles live on
    for key in ("def", "adef"):
        J.append({"module": "c16", "fn": "h_groupby", "part": {"N": 3, "n": 3, "L": 4, "G": 2, "key": key, "fl": "agen", "eqitems": True}, "timeout": T})
    for key in ("none", "def"):
        J.append({"module": "c16", "fn": "h_groupby", "part": {"N": 3, "n": 3, "L": 4, "G": 2, "key": key, "fl": "agen", "drop": True}, "timeout": T})
    # key callables that are not coroutine functions but return awaitables
    for key in ("obj", "partial", "defaw"):
        J.append({"module": "c16", "fn": "h_groupby", "part": {"N": 3, "n": 3, "L": 4, "G": 2, "key": key, "fl": "agen"}, "timeout": T})
    return J


LEVEL = "other"
BOUNDS = {
    "quick": "(plus sequences of 3 plain values from {None, 0, 1}) item sequences of length 0..4 with unbounded integer keys (only equality matters: every partition into runs is a path), key absent / def / async def (and, for 3 items, callable object, partial(async def), def returning a ready awaitable), every operation sequence of length 5 over {advance groupby, advance group handle 1, advance group handle 2}; for 3 items also items that all compare equal while their keys differ, and sequences of length 4 that may drop the groupby object while group handles live on",
    "thorough": "length 4..5 with operation sequences of length 6 starting with an advance, length 0..3 with every sequence of length 5, over {advance groupby, advance group handle 1..3}",
}
OUTSIDE = ["sequences longer than the bound, more group handles than G", "keys whose equality is not reflexive", "closing group handles (C04)"]
NONTRIVIAL_RULE = "(for non-empty input) >=1 group obtained and >=1 group item served on the path"

MANIFEST = {
    "text": 'Items with unconstrained integer keys (every partition into runs is a path) or None/plain values, and every operation sequence over {advance groupby, advance handle i}, compared step by step with itertools.groupby driven by the same operations: key objects, item identity, stop signals. Nothing is claimed outside the bounds listed in the evidence file.',
    "note": 'Trusted: CrossHair 0.0.110 (with short-circuiting off and a refined callable() model), z3 5.1.0, the harness oracles. Only adjacent-key equality matters to groupby; keys are ints so equality is reflexive.',
}
