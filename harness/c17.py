"""C17 — event-loop agnostic: the library suspends only where user awaitables suspend."""
import asyncio
import contextlib

import asyncstdlib as A

from .world import P, World, Driver, Item, Suspend, Lock, fail, finish, Suspended, reset_run, same_seq
from .tools import Opts
from .gen import op_of, pre_gen, fix_flags, mkdata, run_async, run_sync, endings_match, endkind, n_items

PROPERTY = "C17"


@contextlib.contextmanager
def no_loop(W):
    """Any touch of an asyncio loop accessor is a violation while a harness runs."""
    names = ("get_event_loop", "get_running_loop", "new_event_loop", "_get_running_loop", "current_task", "wrap_future", "ensure_future", "create_task", "gather", "sleep", "shield", "wait_for")
    saved = {}
    ev = asyncio.events

    def mk(nm):
        def stub(*a, **k):
            W.bad("c17:asyncio-%s-touched" % nm)
            raise RuntimeError("no event loop in this harness")

        return stub

    for nm in names:
        saved[nm] = (getattr(asyncio, nm, None), getattr(ev, nm, None))
        if saved[nm][0] is not None:
            setattr(asyncio, nm, mk(nm))
        if saved[nm][1] is not None:
            setattr(ev, nm, mk(nm))
    try:
        yield
    finally:
        for nm in names:
            if saved[nm][0] is not None:
                setattr(asyncio, nm, saved[nm][0])
            if saved[nm][1] is not None:
                setattr(ev, nm, saved[nm][1])


def h_tokens(k0: int, k1: int, k2: int, k3: int, k4: int, k5: int, k6: int, k7: int, n0: int, n1: int, n2: int, p0: int, p1: int, p2: int, b0: bool, b1: bool, b2: bool, x: int, y: int, z: int):
    """
    pre: pre_gen(n0, n1, n2, p0, p1, p2, x, y, z)
    pre: fix_flags(b0, b1, b2)
    post: _[0]
    post: not _[1]
    """
    reset_run()
    op, kind = op_of(P("op"))
    name = op.name
    d = mkdata([k0, k1, k2, k3, k4, k5, k6, k7], [n0, n1, n2, 0], [p0, p1, p2], [b0, b1, b2])
    o = Opts(fl=(P("fls") or [P("fl", "agen")] * 4), ffl=P("ffl", "adef"))
    Wa, Ws = World("a", susp=x, fn_susp=y), World("s")
    thrown = None
    if P("throw", False):
        # the loop throws an exception in at its z-th suspension (what asyncio does to cancel)
        thrown = asyncio.CancelledError("thrown-by-the-loop")
        Wa.close_susp = 1
        D = Driver(Wa, sync_only=False, cancel_at=z, cancel_exc=thrown)
    else:
        D = Driver(Wa, sync_only=False)
    ok = True
    with no_loop(Wa):
        out_a, end_a, _h = run_async(op, kind, Wa, D, d, o)
        if D.cancelled:
            if _h is not None:
                Driver(Wa).aclose(_h)
            # what the loop threw reached exactly the awaitable that was suspended, unchanged
            if not Wa.thrown_seen or Wa.thrown_seen[0][0] is not D.cancel_token or Wa.thrown_seen[0][1] is not thrown:
                ok = fail("%s:thrown-exception-did-not-reach-the-suspended-awaitable" % name, Wa.thrown_seen) and ok
            if end_a is not thrown:
                ok = fail("%s:thrown-exception-not-propagated" % name, end_a) and ok
            for v in Wa.viol:
                ok = fail("%s:%s" % (name, v)) and ok
            if Wa.pending:
                ok = fail("%s:suspension-tokens-lost" % name, len(Wa.pending)) and ok
            return finish(ok, True, (name, tuple(len(s) for s in d.srcs), x, y, "thrown-at", D.nsusp))
    out_s, end_s = run_sync(op, kind, Ws, d, o)
    if not same_seq(out_a, out_s) or not endings_match(end_a, end_s):
        ok = fail("%s:result-differs-when-arguments-suspend" % name, (out_a, out_s, end_a, end_s)) and ok
    # every suspension carried a harness token (foreign ones are recorded by the driver),
    # every token reached the driver, every reply reached its awaitable unchanged
    if D.nsusp != Wa.ntok or Wa.pending:
        ok = fail("%s:suspension-count-mismatch" % name, (D.nsusp, Wa.ntok)) and ok
    # exactly the user awaitables suspended: uses * suspensions-per-use
    n_src = 0
    n_fn = 0
    for ev in Wa.log:
        if ev[0] in ("pull", "end") or (ev[0] == "fault"):
            n_src += 1
        elif ev[0] == "call":
            n_fn += 1
    if Wa.close_susp == 0 and Wa.ntok != n_src * x + n_fn * y:
        ok = fail("%s:suspended-elsewhere-than-in-user-awaitables" % name, (Wa.ntok, n_src, n_fn, x, y)) and ok
    for v in Wa.viol:
        ok = fail("%s:%s" % (name, v)) and ok
    return finish(ok, Wa.ntok >= 2, (name, tuple(len(s) for s in d.srcs), x, y, Wa.ntok, endkind(end_s)))


# ---- the other operation classes --------------------------------------------------------
def h_tokens_misc(which: int, s: int):
    """
    pre: 0 <= which <= 18 and 0 <= s <= 2
    post: _[0]
    post: not _[1]
    """
    reset_run()
    W = World("a", susp=s)
    D = Driver(W, sync_only=(s == 0))
    items = [Item(0, "0.%d" % i) for i in range(2)]
    ok = True
    expect = None
    w = 0
    for i in range(19):
        if which == i:
            w = i

    async def sus():
        for _ in range(s):
            await Suspend(W)

    async def aval(v):
        await sus()
        return v

    try:
        with no_loop(W):
            if w == 0:  # contextmanager: enter and exit suspend
                @A.contextmanager
                async def cm():
                    await sus()
                    yield 1
                    await sus()

                async def prog():
                    async with cm() as v:
                        await sus()
                        return v

                r = D.call(prog())
                expect = 3 * s
                good = r == ("ok", 1)
            elif w == 1:  # ExitStack with async cm, sync cm, callback
                log = []

                class ACM:
                    async def __aenter__(self):
                        await sus()
                        return self

                    async def __aexit__(self, *a):
                        await sus()
                        log.append("a")

                class SCM:
                    def __enter__(self):
                        return self

                    def __exit__(self, *a):
                        log.append("s")

                async def cb():
                    await sus()
                    log.append("c")

                async def prog():
                    async with A.ExitStack() as st:
                        await st.enter_context(ACM())
                        await st.enter_context(SCM())
                        st.callback(cb)
                        st.callback(log.append, "d")
                    return list(log)

                r = D.call(prog())
                expect = 3 * s
                good = r == ("ok", ["d", "c", "s", "a"])
            elif w == 2:  # lru_cache
                @A.lru_cache(maxsize=2)
                async def f(k):
                    await sus()
                    return k

                async def prog():
                    return [await f(1), await f(1), await f(2)]

                r = D.call(prog())
                expect = 2 * s
                good = r == ("ok", [1, 1, 2])
            elif w == 3:  # cached_property with a lock type
                locks = []

                class LockT(Lock):
                    def __init__(self):
                        Lock.__init__(self, W, enter_susp=s, exit_susp=s)

                class R:
                    @A.cached_property(LockT)
                    async def v(self):
                        await sus()
                        return 7

                async def prog():
                    r0 = R()
                    return [await r0.v, await r0.v]

                r = D.call(prog())
                expect = 3 * s
                good = r == ("ok", [7, 7])
            elif w == 4:  # any_iter: awaitable of async iterable of awaitables
                async def outer():
                    await sus()
                    return W.source([aval(items[0]), aval(items[1])], "acls")

                async def prog():
                    return [v async for v in A.any_iter(outer())]

                r = D.call(prog())
                expect = s + 3 * s + 2 * s
                good = r[0] == "ok" and same_seq(r[1], items)
            elif w == 5:  # await_each
                async def prog():
                    return [v async for v in A.await_each([aval(items[0]), aval(items[1])])]

                r = D.call(prog())
                expect = 2 * s
                good = r[0] == "ok" and same_seq(r[1], items)
            elif w == 6:  # apply
                r = D.call(A.apply(lambda a, b=None: (a, b), aval(1), b=aval(2)))
                expect = 2 * s
                good = r == ("ok", (1, 2))
            elif w == 7:  # sync() around a sync function returning an awaitable
                r = D.call(A.sync(lambda v: aval(v))(5))
                expect = s
                good = r == ("ok", 5)
            elif w == 8:  # scoped_iter + borrow + islice
                src = W.source(items, "agen")

                async def prog():
                    out = []
                    async with A.scoped_iter(src) as it:
                        async for v in A.islice(A.borrow(it), 1):
                            out.append(v)
                        async for v in it:
                            out.append(v)
                    return out

                r = D.call(prog())
                expect = 3 * s
                good = r[0] == "ok" and same_seq(r[1], items)
            elif w == 9:  # tee with lock
                src = W.source(items, "acls")
                lock = Lock(W, enter_susp=s, exit_susp=s)

                async def prog():
                    a, b = A.tee(src, 2, lock=lock)
                    return [await A.anext(a), await A.anext(b), await A.anext(a), await A.anext(b)]

                r = D.call(prog())
                expect = 2 * (3 * s)
                good = r[0] == "ok" and same_seq(r[1], [items[0], items[0], items[1], items[1]])
            elif w == 10:  # groupby with async key
                src = W.source(items, "agen")

                async def key(v):
                    await sus()
                    return 1

                async def prog():
                    out = []
                    async for k, g in A.groupby(src, key=key):
                        out.append([v async for v in g])
                    return out

                r = D.call(prog())
                expect = 3 * s + 2 * s
                good = r[0] == "ok" and len(r[1]) == 1 and same_seq(r[1][0], items)
            elif w == 14:  # apply with four awaitable arguments (three positional, one keyword)
                r = D.call(A.apply(lambda a, b, c, d=None: (a, b, c, d), aval(1), aval(2), aval(3), d=aval(4)))
                expect = 4 * s
                good = r == ("ok", (1, 2, 3, 4))
            elif w == 15:  # a context from contextmanager open inside an async generator that is closed at its yield
                log = []

                @A.contextmanager
                async def cm():
                    await sus()
                    try:
                        yield 1
                    finally:
                        await sus()
                        log.append("cleanup")

                async def gen():
                    async with cm() as v:
                        yield v

                async def prog():
                    g = gen()
                    v = await g.__anext__()
                    await g.aclose()
                    return (v, list(log))

                r = D.call(prog())
                expect = 2 * s
                good = r == ("ok", (1, ["cleanup"]))
            elif w == 16:  # a tee closed by one task while another task is suspended inside the source
                src = W.source(items, "acls")
                t = A.tee(src, 2)
                good = True
                expect = None
                r = None
                if s > 0:
                    from .world import Token, _is_crosshair_control

                    co = t[0].__anext__()
                    tok = co.send(None)  # task A now waits inside the user's source
                    r = D.call(t.aclose())  # task B closes the tee meanwhile (it may refuse, it must not invent suspensions)
                    while True:
                        if type(tok) is not Token or tok not in W.pending:
                            W.bad("c17:foreign-suspension")
                            break
                        W.pending.remove(tok)
                        D.nsusp += 1
                        try:
                            tok = co.send(tok.reply)
                        except (StopIteration, StopAsyncIteration):
                            break
                        except BaseException as e:  # noqa
                            if _is_crosshair_control(e):
                                raise
                            break
            elif w == 17:  # an ExitStack left by asyncio.CancelledError that an exit callback suppresses
                async def suppress(et, ev, tb):
                    await sus()
                    return isinstance(ev, asyncio.CancelledError)

                async def prog():
                    async with A.ExitStack() as st:
                        st.push(lambda et, ev, tb: False)
                        st.push(suppress)
                        raise asyncio.CancelledError()
                    return "suppressed"

                r = D.call(prog())
                expect = s
                good = r == ("ok", "suppressed")
            elif w == 18:  # sync() around a function returning a concurrent.futures.Future (not awaitable)
                import concurrent.futures

                fut = concurrent.futures.Future()
                fut.set_result(5)
                r = D.call(A.sync(lambda: fut)())
                expect = 0
                good = r[0] == "ok" and r[1] is fut
            elif w == 13:  # any_iter over a future-like awaitable (awaitable and iterable at once)
                from .c19 import FutureLike

                async def outer2():
                    await sus()
                    return W.source([items[0], items[1]], "acls")

                async def prog():
                    return [v async for v in A.any_iter(FutureLike(outer2()))]

                r = D.call(prog())
                expect = s + 3 * s
                good = r[0] == "ok" and same_seq(r[1], items)
            elif w == 12:  # tee without a lock (must not look for a running loop)
                src = W.source(items, "acls")

                async def prog():
                    async with A.tee(src, 2) as (a, b):
                        return [await A.anext(a), await A.anext(b), await A.anext(a), await A.anext(b)]

                r = D.call(prog())
                expect = 2 * s
                good = r[0] == "ok" and same_seq(r[1], [items[0], items[0], items[1], items[1]])
            else:  # closing / nullcontext / decorator use
                class Thing:
                    async def aclose(self):
                        await sus()

                @A.contextmanager
                async def cm():
                    await sus()
                    yield

                @cm()
                async def body():
                    await sus()
                    return 3

                async def prog():
                    async with A.closing(Thing()), A.nullcontext(1) as one:
                        return (one, await body())

                r = D.call(prog())
                expect = 3 * s
                good = r == ("ok", (1, 3))
    except Suspended:
        return finish(fail("misc-%d:suspended-with-nonsuspending-arguments" % w), False)
    if not good:
        ok = fail("misc-%d:wrong-result" % w, r) and ok
    if D.nsusp != W.ntok or W.pending or (expect is not None and W.ntok != expect):
        ok = fail("misc-%d:suspension-count-mismatch" % w, (D.nsusp, W.ntok, expect)) and ok
    for v in W.viol:
        ok = fail("misc-%d:%s" % (w, v)) and ok
    return finish(ok, s >= 1, ("misc", w, s, W.ntok))


# ---- sizes: synchronous arguments never suspend, whatever the input size -------------------------
SIZE_OPS = ("sorted", "sorted-key", "list", "tuple", "set", "dict", "sum", "min", "max-key", "all", "any", "reduce", "nlargest", "map-list", "zip-list", "filter-list", "islice-list", "batched-list", "chain-list", "merge-list", "groupby-list", "tee-list", "accumulate-list")


def h_sync_sizes(which: int, size: int):
    """
    pre: 0 <= which < len(SIZE_OPS) and 0 <= size <= P("SZ", 6)
    post: _[0]
    post: not _[1]
    """
    reset_run()
    W = World("a")
    D = Driver(W, sync_only=True)
    w = 0
    for i in range(len(SIZE_OPS)):
        if which == i:
            w = i
    op = SIZE_OPS[w]
    data = []
    for i in range(size):
        data.append((i * 7) % 11)
    ident = lambda v: v  # noqa: E731
    calls = {
        "sorted": lambda: A.sorted(data),
        "sorted-key": lambda: A.sorted(data, key=ident),
        "list": lambda: A.list(data),
        "tuple": lambda: A.tuple(data),
        "set": lambda: A.set(data),
        "dict": lambda: A.dict([(v, v) for v in data]),
        "sum": lambda: A.sum(data),
        "min": lambda: A.min(data, default=None),
        "max-key": lambda: A.max(data, key=ident, default=None),
        "all": lambda: A.all([1 for _ in data]),
        "any": lambda: A.any([0 for _ in data]),
        "reduce": lambda: A.reduce(lambda a, b: b, data, None),
        "nlargest": lambda: A.nlargest(data, 3),
        "map-list": lambda: A.list(A.map(ident, data)),
        "zip-list": lambda: A.list(A.zip(data, data)),
        "filter-list": lambda: A.list(A.filter(None, data)),
        "islice-list": lambda: A.list(A.islice(data, 1, None, 2)),
        "batched-list": lambda: A.list(A.batched(data, 3)),
        "chain-list": lambda: A.list(A.chain(data, data)),
        "merge-list": lambda: A.list(A.merge(sorted(data), sorted(data))),
        "groupby-list": lambda: A.list(A.map(lambda kg: kg[0], A.groupby(sorted(data)))),
        "tee-list": lambda: A.list(A.tee(data, 2)[0]),
        "accumulate-list": lambda: A.list(A.accumulate(data, initial=0)),
    }
    ok = True
    try:
        r = D.call(calls[op]())
        if r[0] != "ok":
            ok = fail("sizes:%s-raised" % op, r) and ok
    except Suspended:
        ok = fail("sizes:%s-suspended-with-synchronous-arguments(size-%s)" % (op, "large" if size > 64 else "small")) and ok
    return finish(ok, size >= 2, ("sizes", op, size if size <= 64 else -1))


def _grid():
    import random

    rnd = random.Random(29)
    N, S = P("N", 2), P("S", 1)
    X, Y = P("X", (0, 0)), P("Y", (0, 0))
    out = []
    for _ in range(100):
        ns = [rnd.randint(0, N) if i < S else 0 for i in range(3)]
        b = [P("b%d" % i) if P("b%d" % i) is not None else rnd.random() < 0.5 for i in range(3)]
        p0 = rnd.randint(0, N + 1)
        if P("op") in ("nlargest", "nsmallest", "enumerate"):
            p0 = rnd.randint(-1, 1)
        out.append(tuple([rnd.choice([-1, 0, 1, 1, 2]) for _ in range(8)] + ns + [p0, rnd.randint(0, N + 2), rnd.randint(1, 3)] + b + [rnd.randint(X[0], X[1]), rnd.randint(Y[0], Y[1]), 0]))
    return out


GRID = {"h_sync_sizes": lambda: [(w, sz) for w in range(len(SIZE_OPS)) for sz in (0, 1, 5, 1000, 10001, 70000)], "h_tokens": _grid, "h_tokens_misc": lambda: [(w, s) for w in range(19) for s in range(3)]}

TOOLS1 = ["filter", "filter_none", "filterfalse", "takewhile", "dropwhile", "pairwise", "cycle", "accumulate_f", "accumulate_f_init", "enumerate", "batched", "starmap", "islice", "iter_sentinel"]
TOOLS2 = ["zip", "zip_longest", "map", "chain", "chain_from", "compress", "merge"]
AGGS1 = ["all", "any", "min", "max", "sorted", "nlargest", "nsmallest", "reduce", "list", "tuple"]


def jobs(tier):
    q = tier == "quick"
    T = 300 if q else 900
    J = []

    def add(fn, **part):
        part.setdefault("valid_only", True)
        J.append({"module": "c17", "fn": fn, "part": part, "timeout": T})

    N1 = 2 if q else 3
    for fl, ffl in (("agen", "adef"), ("acls", "partial")):
        for op in TOOLS1:
            kw = {"form": 2, "PR": 2, "b0": False, "b1": False, "Y": (0, 0)} if op == "islice" else {}
            kw.setdefault("Y", (0, 1) if q else (0, 2))
            add("h_tokens", op=op, S=1, N=N1, X=(0, 2), fl=fl, ffl=ffl, **kw)
        for op in TOOLS2:
            extra = [{}]
            if op == "merge":
                extra = [{"b0": False}, {"b0": True}]
            for kw in extra:
                add("h_tokens", op=op, S=2, N=(1 if q else 2), X=(0, 2), Y=((0, 1) if q else (0, 2)), fl=fl, ffl=ffl, **kw)
        for op in AGGS1:
            add("h_tokens", op=op, S=1, N=N1, X=(0, 2), Y=((0, 1) if q else (0, 2)), fl=fl, ffl=ffl)
    for fl, ffl in (("agen", "adef"), ("acls", "obj")):
        for op in ("filter", "map", "enumerate", "islice", "zip", "chain", "merge", "accumulate_f", "list", "min", "sorted", "reduce", "nlargest"):
            kw = {"form": 2, "PR": 2, "b0": False, "b1": False} if op == "islice" else {}
            S_ = 2 if op in ("zip", "chain", "merge") else 1
            add("h_tokens", op=op, S=S_, N=1, X=(1, 1), Y=(1, 1), Z=(1, 5), fl=fl, ffl=ffl, throw=True, **kw)
    add("h_tokens_misc")
    add("h_sync_sizes", SZ=(4 if q else 8), preflight_budget=90)
    return J


BOUNDS = {
    "quick": "user awaitables (source pulls, async callables, locks, context managers) suspend 0..2 times (sources, locks, context managers) / 0..1 times (callables) each (symbolic), every suspension yields a fresh token object and expects its token-specific reply; N<=2 items (two-source tools N<=1); 19 further operation classes; an exception thrown in by the loop (asyncio.CancelledError) at suspension k reaches the suspended user awaitable unchanged and cleanup still only suspends in user awaitables (contextmanager, ExitStack, lru_cache, cached_property+lock, any_iter, await_each, apply, sync, scoped_iter/borrow, tee+lock, groupby, closing/nullcontext/decorator); asyncio loop accessors stubbed to raise; 23 operations over synchronous inputs of symbolic size 0..4 plus, natively in the pre-flight only, sizes 1000, 10001 and 70000",
    "thorough": "N<=3 (two-source tools N<=2)",
}
OUTSIDE = ["running under real asyncio/trio loops (nothing loop-specific can be reached without failing the token or loop-accessor checks, but that is an argument, not a check)", "lengths above the bound"]
NONTRIVIAL_RULE = ">=2 suspensions passed through the library on the path"
ASSUMPTIONS = ["C17(a) (zero suspensions with synchronous arguments) is additionally asserted by every C01/C02/C03/C05/C06/C13/C14 harness through the sync_only driver"]

MANIFEST = {
    "text": 'Every user awaitable suspends a symbolic number of times, yielding fresh token objects and expecting token-specific replies; the driver asserts that exactly these tokens come out of the library coroutine and that the number of suspensions equals uses x suspensions-per-use; asyncio loop accessors raise; synchronous arguments never suspend (also for large native inputs). Nothing is claimed outside the bounds listed in the evidence file.',
    "note": 'Trusted: CrossHair 0.0.110 (with short-circuiting off and a refined callable() model), z3 5.1.0, the harness oracles. Running under real event loops is argued, not checked.',
}
