"""C04 — owned async iterators are released when a tool finishes, fails or is closed."""
import asyncstdlib as A

from .world import P, World, Driver, Item, Fault, BaseFault, fail, finish, Suspended, reset_run, make_fault, call_sync
from .tools import Opts
from .gen import op_of, pre_gen, fix_flags, mkdata, start_async, endkind, n_items, pick

PROPERTY = "C04"
LEVEL = "fault_enumeration"

HANDLES = ("chain", "chain_from")  # closing obligations start even if never advanced


def _unreleased(W, only_started=False):
    return [st.sid for st in W.srcs if not st.is_released() and (st.started or not only_started)]


def h_release(k0: int, k1: int, k2: int, k3: int, k4: int, k5: int, k6: int, k7: int, n0: int, n1: int, n2: int, p0: int, p1: int, p2: int, b0: bool, b1: bool, b2: bool, x: int, y: int, z: int):
    """
    pre: pre_gen(n0, n1, n2, p0, p1, p2, x, y, z)
    pre: fix_flags(b0, b1, b2)
    post: _[0]
    post: not _[1]
    """
    reset_run()
    op, kind = op_of(P("op"))
    mode = P("mode", "close")
    name = op.name
    d = mkdata([k0, k1, k2, k3, k4, k5, k6, k7], [n0, n1, n2, 0], [p0, p1, p2], [b0, b1, b2])
    o = Opts(fl=(P("fls") or [P("fl", "agen")] * 4), ffl=P("ffl", "def"))
    fault = make_fault(z) if mode == "fault" else None
    Wa = World("a", fault_at=(y if mode == "fault" else 0), fault=fault)
    Wa.close_susp = P("close_susp", 0)
    D = Driver(Wa, sync_only=(Wa.close_susp == 0))
    ok = True
    try:
        st = start_async(op, kind, Wa, d, o)
        if st[0] == "exc":
            return finish(True, False, (name, "construction-raised"))
        if kind == "agg":
            r = D.call(st[1])
            un = _unreleased(Wa)
            if un:
                ok = fail("%s:source-not-released-after-%s" % (name, "raise" if r[0] == "exc" else "return"), un) and ok
            return finish(ok, n_items(d) >= 1 and (mode != "fault" or Wa.faulted), (name, mode, r[0], Wa.faulted, len(d.srcs[0])))
        ait = st[1]
        lazy_outer = name == "chain_from"  # owns only what it already fetched from the outer iterable
        got, end = D.take(ait, x)
        advanced = x >= 1
        phase = "running"
        if end == "stop":
            phase = "exhaustion"
        elif end is not None:
            phase = "raise"
        if phase != "running":
            un = _unreleased(Wa, lazy_outer)
            if un:
                ok = fail("%s:source-not-released-after-%s" % (name, phase), un) and ok
        if mode == "athrow" and phase == "running" and advanced and hasattr(ait, "athrow"):
            exc = Fault("thrown-by-consumer")
            r = D.call(ait.athrow(exc))
            if r[0] == "exc" and r[1] is exc:
                un = _unreleased(Wa, lazy_outer)
                if un:
                    ok = fail("%s:source-not-released-after-athrow" % name, un) and ok
                phase = "athrow"
        # the consumer closes
        rc = D.aclose(ait)
        if rc[0] == "exc":
            ok = fail("%s:aclose-raised-%s" % (name, type(rc[1]).__name__), rc[1]) and ok
        if advanced or name in HANDLES:
            un = _unreleased(Wa, lazy_outer)
            if un:
                ok = fail("%s:source-not-released-after-close(%s)" % (name, "advanced" if advanced else "unadvanced"), un) and ok
    except Suspended:
        return finish(fail("%s:suspended-with-nonsuspending-arguments" % name), False)
    for v in Wa.viol:
        ok = fail("%s:%s" % (name, v)) and ok
    nt = n_items(d) >= 2 and len(got) >= 1 and (mode != "fault" or Wa.faulted)
    return finish(ok, nt, (name, mode, tuple(len(s) for s in d.srcs), len(got), phase, Wa.faulted))


# ---- tee --------------------------------------------------------------------------
def _pre_tee(n, j0, j1, j2, o0, o1, o2):
    N = P("N", 2)
    return 0 <= n <= N and 0 <= j0 <= N + 1 and 0 <= j1 <= N + 1 and 0 <= j2 <= N + 1


def h_tee_close(n: int, j0: int, j1: int, j2: int, o0: int, o1: int, o2: int, viahandle: bool, more: bool):
    """
    pre: _pre_tee(n, j0, j1, j2, o0, o1, o2)
    post: _[0]
    post: not _[1]
    """
    reset_run()
    C = P("C", 2)
    items = [Item(0, "0.%d" % j) for j in range(n)]
    Wa = World("a")
    D = Driver(Wa, sync_only=True)
    src = Wa.source(items, P("fl", "agen"))
    st = Wa.srcs[0]
    ok = True
    try:
        t = A.tee(src, C)
        kids = [t[i] for i in range(C)]
        js = [j0, j1, j2]
        taken = 0
        done = [False] * C
        advanced = [False] * C
        for c in range(C):
            got, end = D.take(kids[c], js[c])
            taken += len(got)
            advanced[c] = js[c] >= 1
            done[c] = end == "stop"
        if viahandle:
            r = D.call(t.aclose())
            if r[0] == "exc":
                ok = fail("tee:handle-aclose-raised-%s" % type(r[1]).__name__) and ok
            if not st.is_released():
                ok = fail("tee:source-not-released-after-handle-close", taken) and ok
            order = "handle"
        else:
            # close children in a symbolic order; the source must be released exactly
            # when the last one is done (exhausted or closed)
            left = list(range(C))
            sel = [o0, o1, o2]
            order = []
            for step in range(C):
                if st.closed and not all(done):
                    ok = fail("tee:source-closed-before-last-child-done") and ok
                c = left.pop(_idx(sel[step], len(left)))
                order.append(c)
                r = D.aclose(kids[c])
                done[c] = True
                if r[0] == "exc":
                    ok = fail("tee:child-aclose-raised-%s" % type(r[1]).__name__) and ok
                if more:
                    # the remaining children go on after a sibling was closed
                    for c2 in left:
                        g2, e2 = D.take(kids[c2], 1)
                        advanced[c2] = True
                        if e2 == "stop":
                            done[c2] = True
                        elif e2 is not None:
                            ok = fail("tee:sibling-broken-after-a-child-was-closed-%s" % type(e2).__name__) and ok
            if not st.is_released():
                if all(advanced):
                    ok = fail("tee:source-not-released-after-last-child-closed", taken) and ok
                else:
                    ok = fail("tee:source-not-released-after-last-child-closed(a-child-was-never-advanced)", taken) and ok
            order = tuple(order)
        if st.closed > 1:
            ok = fail("tee:source-closed-more-than-once") and ok
    except Suspended:
        return finish(fail("tee:suspended-with-nonsuspending-arguments"), False)
    return finish(ok, len(items) >= 1, ("tee", C, len(items), taken, order))


def _idx(sel, n):
    for i in range(n - 1):
        if sel == i:
            return i
    return n - 1


# ---- groupby --------------------------------------------------------------------------
def h_groupby_close(n: int, k0: int, k1: int, k2: int, steps: int, gsteps: int, usekey: bool, x: int, y: int):
    """
    pre: 0 <= n <= P("N", 3) and 0 <= steps <= 3 and 0 <= gsteps <= 2
    pre: (0 <= x <= 2 * P("N", 3) + 2 and 0 <= y <= 2) if P("faults", False) else (x == 0 and y == 0)
    post: _[0]
    post: not _[1]
    """
    reset_run()
    keys = [k0, k1, k2]
    items = []
    for j in range(n):
        items.append(Item(keys[j], "0.%d" % j))
    fault = make_fault(y) if x else None
    Wa = World("a", fault_at=x, fault=fault)
    D = Driver(Wa, sync_only=True)
    src = Wa.source(items, P("fl", "agen"))
    st = Wa.srcs[0]
    ok = True
    try:
        if usekey:
            g = A.groupby(src, key=Wa.fn("key", lambda it: it.key, P("ffl", "def")))
        else:
            g = A.groupby(src)
        grp = None
        adv = 0
        end = None
        for i in range(steps):
            got, end = D.take(g, 1)
            if got:
                grp = got[0][1]
                adv += 1
            if end is not None and end != "stop":
                break
        if grp is not None and (end is None or end == "stop"):
            _g, end = D.take(grp, gsteps)
        if end is fault and fault is not None and not st.is_released():
            # the groupby raised: like every other tool it must have released its source
            ok = fail("groupby:source-not-released-after-raise") and ok
        r = D.call(g.aclose())
        if r[0] == "exc":
            ok = fail("groupby:aclose-raised-%s(%s)" % (type(r[1]).__name__, "advanced" if steps else "unadvanced")) and ok
        if not st.is_released():
            ok = fail("groupby:source-not-released-after-close") and ok
        if grp is not None:
            r = D.aclose(grp)
            if r[0] == "exc":
                ok = fail("groupby:group-aclose-raised") and ok
    except Suspended:
        return finish(fail("groupby:suspended-with-nonsuspending-arguments"), False)
    return finish(ok, len(items) >= 1, ("groupby", len(items), adv, bool(usekey)))


# ---- aggregations failing in the item protocol ----------------------------------------------
class _Unhashable:
    __hash__ = None


def h_agg_proto(n: int, badpos: int, which: int):
    """
    pre: 1 <= n <= 3 and 0 <= badpos < n and 0 <= which <= 4
    post: _[0]
    post: not _[1]
    """
    reset_run()
    Wa = World("a")
    D = Driver(Wa, sync_only=True)
    fl = P("fl", "agen")
    names = ("sum", "set", "dict", "dict-unpack", "sorted")
    w = 0
    for i in range(5):
        if which == i:
            w = i
    vals = []
    for j in range(n):
        bad = j == badpos
        if w == 0:
            vals.append("x" if bad else 1)
        elif w == 1:
            vals.append(_Unhashable() if bad else j)
        elif w == 2:
            vals.append((_Unhashable(), 1) if bad else (j, 1))
        elif w == 3:
            vals.append(5 if bad else (j, 1))
        else:
            vals.append(Item(0, j, bad=bad))
    src = Wa.source(vals, fl)
    if w == 0:
        aw = A.sum(src)
    elif w == 1:
        aw = A.set(src)
    elif w in (2, 3):
        aw = A.dict(src)
    else:
        aw = A.sorted(src) if n > 1 else A.sum(src, Item(0, "s"))
    r = D.call(aw)
    ok = True
    if r[0] != "exc" and not (w == 4 and n == 1):
        ok = fail("%s:expected-an-error" % names[w], r) and ok
    if not Wa.srcs[0].is_released():
        ok = fail("%s:source-not-released-after-raise" % names[w]) and ok
    return finish(ok, True, (names[w], len(vals), r[0]))


# ---- grids ---------------------------------------------------------------------
def _grid_release():
    import random

    rnd = random.Random(17)
    N, S = P("N", 2), P("S", 1)
    X, Y, Z = P("X", (0, 0)), P("Y", (0, 0)), P("Z", (0, 0))
    out = []
    for _ in range(150):
        ns = [rnd.randint(0, N) if i < S else 0 for i in range(3)]
        b = [P("b%d" % i) if P("b%d" % i) is not None else rnd.random() < 0.5 for i in range(3)]
        p0 = rnd.randint(1 if P("valid_only", False) else 0, N + 1)
        if P("op") in ("nlargest", "nsmallest", "enumerate"):
            p0 = rnd.randint(-1, 1)
        out.append(tuple([rnd.choice([-1, 0, 1, 1, 2]) for _ in range(8)] + ns + [p0, rnd.randint(0, N + 2), rnd.randint(1, 3)] + b + [rnd.randint(X[0], X[1]), rnd.randint(Y[0], Y[1]), rnd.randint(Z[0], Z[1])]))
    return out


GRID = {
    "h_release": _grid_release,
    "h_tee_close": lambda: [(n, a, b, 1, o, 0, 0, v, m) for n in range(3) for a in range(3) for b in range(3) for o in (0, 1) for v in (False, True) for m in (False, True)],
    "h_groupby_close": lambda: [(n, 1, 1, 2, s, g, u, x, 0) for n in range(4) for s in range(4) for g in range(2) for u in (False, True) for x in ((0, 1, 2, 3, 5) if P("faults", False) else (0,))],
    "h_agg_proto": lambda: [(n, b, w) for n in (1, 2, 3) for b in range(n) for w in range(5)],
}

TOOLS1 = ["filter", "filter_none", "filterfalse", "takewhile", "dropwhile", "pairwise", "cycle", "accumulate_f", "accumulate_f_init", "enumerate", "batched", "starmap", "islice"]
TOOLS2 = ["zip", "zip_longest", "map", "chain", "chain_from", "compress", "merge"]
AGGS1 = ["all", "any", "min", "max", "sorted", "nlargest", "nsmallest", "reduce", "list", "tuple"]


def jobs(tier):
    q = tier == "quick"
    T = 300 if q else 900
    J = []

    def add(fn, **part):
        part.setdefault("valid_only", True)
        J.append({"module": "c04", "fn": fn, "part": part, "timeout": T})

    N1 = 2 if q else 3
    for op in ("filter", "islice", "enumerate", "zip", "chain", "merge", "sorted", "list", "min"):
        kw = {"form": 2, "PR": 2, "b0": False, "b1": False} if op == "islice" else {}
        S_ = 2 if op in ("zip", "chain", "merge") else 1
        add("h_release", op=op, S=S_, N=2, mode="close", X=(0, 3), fl="adual", **kw)
    for fl in ("agen", "acls"):
        for op in TOOLS1:
            kw = {"form": 2, "PR": 2, "b0": False, "b1": False} if op == "islice" else {}
            add("h_release", op=op, S=1, N=N1, mode="close", X=(0, N1 + 1), fl=fl, **kw)
            add("h_release", op=op, S=1, N=N1, mode="fault", X=(N1 + 1, N1 + 1), Y=(1, 2 * N1 + 2), Z=(0, 2), fl=fl, ffl=("adef" if fl == "acls" else "def"), **kw)
            add("h_release", op=op, S=1, N=N1, mode="athrow", X=(1, N1), fl=fl, **kw)
        for op in TOOLS2:
            S = 2
            extra = [{}]
            if op == "merge":
                extra = [{"b0": False}, {"b0": True}]
            for kw in extra:
                add("h_release", op=op, S=S, N=2, mode="close", X=(0, 5), fl=fl, **kw)
                add("h_release", op=op, S=S, N=2, mode="fault", X=(5, 5), Y=(1, 8), Z=(0, 2), fl=fl, ffl=("adef" if fl == "acls" else "def"), **kw)
                add("h_release", op=op, S=S, N=(1 if q else 2), mode="athrow", X=(1, 3), fl=fl, **kw)
        # sources whose aclose() has to suspend: an abandoned inner generator cannot close them
        # for us when it is garbage collected
        for op in TOOLS2 + TOOLS1:
            kw = {"form": 2, "PR": 2, "b0": False, "b1": False} if op == "islice" else {}
            S_ = 2 if op in TOOLS2 else 1
            add("h_release", op=op, S=S_, N=2, mode="close", X=(0, 3), fl=fl, close_susp=1, **kw)
        # mixed argument kinds: a sync iterable first, the async iterator after it
        for op in ("chain", "zip", "zip_longest", "map", "merge", "compress"):
            for first in ("list", "iter", "bare"):  # bare: an async iterator without aclose in front of a closeable one
                add("h_release", op=op, S=2, N=2, mode="fault", X=(5, 5), Y=(1, 8), Z=(0, 1), fls=[first, fl, fl, fl])
                add("h_release", op=op, S=2, N=2, mode="close", X=(0, 3), fls=[first, fl, fl, fl])
        for op in ("zip", "zip_longest", "chain", "merge"):
            add("h_release", op=op, S=3, N=1, mode="close", X=(0, 4), fl=fl)
            add("h_release", op=op, S=3, N=1, mode="fault", X=(4, 4), Y=(1, 7), Z=(0, 2), fl=fl)
        # a user callable that raises StopAsyncIteration (fault kind 7) must not skip the release
        for op in ("map", "filter", "takewhile", "accumulate_f", "starmap", "min", "sorted", "reduce", "nlargest"):
            S_ = 1
            add("h_release", op=op, S=S_, N=2, mode="fault", X=(3, 3), Y=(1, 5), Z=(7, 7), fl=fl, ffl=("adef" if fl == "acls" else "def"), b1=True)
        for op in AGGS1:
            add("h_release", op=op, S=1, N=N1, mode="close", fl=fl)
            add("h_release", op=op, S=1, N=N1, mode="fault", Y=(1, 2 * N1 + 2), Z=(0, 2), fl=fl, ffl=("adef" if fl == "acls" else "def"))
        add("h_tee_close", C=2, N=2, fl=fl)
        add("h_tee_close", C=3, N=(1 if q else 2), fl=fl)
        add("h_groupby_close", N=3, fl=fl)
        add("h_groupby_close", N=2, fl=fl, faults=True, ffl=("adef" if fl == "acls" else "def"))
        add("h_agg_proto", fl=fl)
    return J


BOUNDS = {
    "quick": "per tool: j=0..N+1 items taken then aclose (also with sources whose aclose() suspends); or one fault (3 kinds) at symbolic use position k; or consumer athrow after j items; N<=2 items per source, S<=3 sources; sources = async generators and class-based iterators with aclose (also mixed with sync iterables or an async iterator without aclose in front, and class-based ones that are also sync-iterable); tee: 2..3 children, j_i items each, every closing order or handle.aclose(); groupby: 0..3 advances, 0..2 group items, then aclose; aggregations incl. failures in +, hash, unpack and comparison",
    "thorough": "N<=3",
}
OUTSIDE = ["invalid parameters (batched n<1: the tool refuses before taking ownership)", "chain.from_iterable owns only the iterables already fetched from the outer iterable (documented)", "generator-based tools that were never advanced (the property's obligation starts with the first advance)", "sources without aclose (nothing to release)", "lengths above the bound"]
NONTRIVIAL_RULE = ">=2 source items and >=1 item taken (fault modes: the fault was delivered)"

MANIFEST = {
    "text": 'Fault enumeration by symbolic execution: number of items taken before closing, fault position and kind, consumer athrow, exhaustion; instrumented async-generator and class-based sources (also with suspending aclose) must be closed or exhausted when the close/raise/exhaustion completes; tee closing orders, groupby, aggregations failing in +, hash, unpacking and comparison. Nothing is claimed outside the bounds listed in the evidence file.',
    "note": 'Trusted: CrossHair 0.0.110 (with short-circuiting off and a refined callable() model), z3 5.1.0, the harness oracles. Release predicate: generator finished/closed or aclose called/exhausted. One open known finding (tee child closed before ever advanced).',
}
