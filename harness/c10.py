"""C10 — lru_cache equals functools.lru_cache over every sequential call history."""
import functools
from collections import OrderedDict

import asyncstdlib as A

from .world import P, World, Driver, fail, finish, Suspended, reset_run, _no_tracing, call_sync

PROPERTY = "C10"


class Boom(Exception):
    pass


# call patterns: (args, kwargs-as-ordered-items)
PATTERNS = [
    ((1,), ()),
    ((1.0,), ()),
    ((True,), ()),
    (("1",), ()),
    (((1,),), ()),
    ((None,), ()),
    ((0,), ()),
    ((False,), ()),
    ((0.0,), ()),
    ((1, 2), ()),
    ((2, 1), ()),
    ((1, 2.0), ()),
    ((), ()),
    ((), (("a", 1),)),
    ((), (("a", 1.0),)),
    ((1,), (("b", 2),)),
    ((), (("a", 1), ("b", 2))),
    ((), (("b", 2), ("a", 1))),
    ((("a", 1),), ()),
    (("a", 1), ()),
    ((1,), (("a", None),)),
    ((2,), ()),
    ((3,), ()),
    (("x",), ()),
    ((-1, 0), ()),  # hash(-1) == hash(-2) in CPython: distinct patterns with equal hashes
    ((-2, 0), ()),
]
NP = len(PATTERNS)
MAXSIZES = {"none": None, "neg": -3, "zero": 0, "one": 1, "two": 2, "three": 3, "default": "default", "big": 5}


def make_pair(maxsize, typed):
    """The asyncstdlib-cached coroutine function and the functools-cached plain function."""
    log_a, log_s = [], []
    mode = {"fail": False}

    async def fa(*a, **k):
        log_a.append((a, tuple(k.items())))
        if mode["fail"]:
            raise Boom("failing call")
        if a == (2,):
            return None  # a legitimate result
        return ("result", len(log_a))

    def fs(*a, **k):
        log_s.append((a, tuple(k.items())))
        if mode["fail"]:
            raise Boom("failing call")
        if a == (2,):
            return None
        return ("result", len(log_s))

    if maxsize == "default":
        ca = A.lru_cache(typed=typed)(fa)
        with _no_tracing():
            cs = functools.lru_cache(typed=typed)(fs)
    else:
        ca = A.lru_cache(maxsize=maxsize, typed=typed)(fa)
        with _no_tracing():
            cs = functools.lru_cache(maxsize=maxsize, typed=typed)(fs)
    return ca, cs, log_a, log_s, mode


class Model:
    """Reference LRU (OrderedDict + functools._make_key); used where the C oracle cannot go
    (cache_discard, symbolic maxsize) and itself compared with functools wherever possible."""

    def __init__(self, maxsize, typed):
        if maxsize is not None and maxsize < 0:
            maxsize = 0
        self.maxsize, self.typed = maxsize, typed
        self.d = OrderedDict()
        self.hits = self.misses = 0
        self.log = []

    def call(self, args, kw, fail):
        key = functools._make_key(args, dict(kw), self.typed)
        if self.maxsize != 0 and key in self.d:
            self.hits += 1
            self.d.move_to_end(key)
            return ("ok", self.d[key])
        self.misses += 1
        self.log.append((args, tuple(kw)))
        if fail:
            return ("exc", Boom)
        res = None if args == (2,) else ("result", len(self.log))
        if self.maxsize == 0:
            return ("ok", res)
        if self.maxsize is not None and len(self.d) >= self.maxsize:
            self.d.popitem(last=False)
        self.d[key] = res
        return ("ok", res)

    def clear(self):
        self.d.clear()
        self.hits = self.misses = 0

    def discard(self, args, kw):
        self.d.pop(functools._make_key(args, dict(kw), self.typed), None)

    def info(self):
        return (self.hits, self.misses, self.maxsize, len(self.d))


def pickp(sel):
    for i in range(NP - 1):
        if sel == i:
            return PATTERNS[i]
    return PATTERNS[NP - 1]


def info_a(ca):
    i = ca.cache_info()
    return (i.hits, i.misses, i.maxsize, i.currsize)


def info_s(cs):
    with _no_tracing():
        i = cs.cache_info()
        return (i.hits, i.misses, i.maxsize, i.currsize)


def do_call(D, ca, cs, m, mode, pat, failing, use_std):
    args, kw = pat
    mode["fail"] = failing
    ra = D.call(ca(*args, **dict(kw)))
    rs = None
    if use_std:
        with _no_tracing():
            rs = call_sync(cs, *args, **dict(kw))
    rm = m.call(args, kw, failing)
    mode["fail"] = False
    return ra, rs, rm


def same_res(ra, r2):
    if r2 is None:
        return True
    if ra[0] != r2[0]:
        return False
    if ra[0] == "ok":
        return ra[1] == r2[1]
    t = r2[1] if isinstance(r2[1], type) else type(r2[1])
    return type(ra[1]) is t


# ---- (A) key equivalence -----------------------------------------------------------------
def h_keys(p: int, q: int, typed: bool):
    """
    pre: 0 <= p < NP and 0 <= q < NP
    post: _[0]
    post: not _[1]
    """
    reset_run()
    typed = True if typed else False
    W = World("a")
    D = Driver(W, sync_only=True)
    ca, cs, log_a, log_s, mode = make_pair(P("ms", None), typed)
    m = Model(None if P("ms", None) is None else P("ms"), typed)
    pp, qq = pickp(p), pickp(q)
    ok = True
    try:
        for pat in (pp, qq, pp):
            ra, rs, rm = do_call(D, ca, cs, m, mode, pat, False, True)
            if not same_res(ra, rs):
                ok = fail("lru_cache:result-differs", (pp, qq, ra, rs)) and ok
            if info_a(ca) != info_s(cs):
                ok = fail("lru_cache:key-equivalence-differs-from-functools", (pp, qq, bool(typed), info_a(ca), info_s(cs))) and ok
                break
            if info_s(cs) != m.info():
                ok = fail("lru_cache:model-differs-from-functools(harness)", (pp, qq)) and ok
    except Suspended:
        return finish(fail("lru_cache:suspended-with-nonsuspending-arguments"), False)
    if log_a != log_s:
        ok = fail("lru_cache:invocations-differ", (log_a, log_s)) and ok
    return finish(ok, True, ("keys", repr(pp), repr(qq), bool(typed)))


# ---- (B) k-step simulation from every canonical state -------------------------------------------
KEYS = [PATTERNS[0], PATTERNS[21], PATTERNS[23], PATTERNS[22]]  # 1, 2, 'x', 3
NKEY = P("NKEY", 4)
# op = kind * NKEY + key ; kinds: call, failing call, discard ; then clear, info
OP_CLEAR = 3 * NKEY
OP_INFO = 3 * NKEY + 1
NOP = 3 * NKEY + 2


def _pre_dyn(npre, s0, s1, s2, o0, o1, o2, ms):
    K = P("K", 2)
    ok = 0 <= npre <= P("PRE", 3)
    ok = ok and 0 <= s0 < NKEY and 0 <= s1 < NKEY and 0 <= s2 < NKEY
    # the prefix consists of distinct keys
    ok = ok and (npre < 2 or s0 != s1) and (npre < 3 or (s2 != s0 and s2 != s1))
    for i, o in enumerate((o0, o1, o2)):
        if i < K:
            ok = ok and 0 <= o < NOP
        else:
            ok = ok and o == 0
    if P("symbolic_ms", False):
        ok = ok and -2 <= ms  # unbounded above
    else:
        ok = ok and ms == 0
    if P("o0") is not None:
        ok = ok and o0 == P("o0")
    if P("o0r") is not None:
        ok = ok and P("o0r")[0] <= o0 <= P("o0r")[1]
    return ok


def _fix_typed(typed):
    return True if P("typed") is None else typed == P("typed")


def h_dyn(npre: int, s0: int, s1: int, s2: int, o0: int, o1: int, o2: int, ms: int, typed: bool):
    """
    pre: _pre_dyn(npre, s0, s1, s2, o0, o1, o2, ms)
    pre: _fix_typed(typed)
    post: _[0]
    post: not _[1]
    """
    reset_run()
    typed = True if typed else False
    K = P("K", 2)
    W = World("a")
    D = Driver(W, sync_only=True)
    symbolic = P("symbolic_ms", False)
    if symbolic:
        maxsize = ms
        use_std = False
        log_a = []
        mode = {"fail": False}

        async def fa(*a, **k):
            log_a.append((a, tuple(k.items())))
            if mode["fail"]:
                raise Boom("failing call")
            if a == (2,):
                return None
            return ("result", len(log_a))

        ca = A.lru_cache(maxsize=maxsize, typed=typed)(fa)
        cs, log_s = None, None
    else:
        maxsize = MAXSIZES[P("ms", "two")]
        use_std = True
        ca, cs, log_a, log_s, mode = make_pair(maxsize, typed)
    m = Model(128 if maxsize == "default" else maxsize, typed)
    ok = True
    trace = []
    used_discard = False
    try:
        sels = [s0, s1, s2]
        for i in range(npre):
            k = 0
            for v in range(NKEY):
                if sels[i] == v:
                    k = v
            trace.append(("pre", k))
            do_call(D, ca, cs, m, mode, KEYS[k], False, use_std)
        ops = [o0, o1, o2]
        for i in range(K):
            op = 0
            for v in range(NOP):
                if ops[i] == v:
                    op = v
            if op == OP_CLEAR:
                trace.append("clear")
                ca.cache_clear()
                if use_std:
                    with _no_tracing():
                        cs.cache_clear()
                m.clear()
            elif op == OP_INFO:
                trace.append("info")
            else:
                kind, k = op // NKEY, op % NKEY
                if kind == 2:
                    trace.append(("discard", k))
                    used_discard = True
                    args, kw = KEYS[k]
                    ca.cache_discard(*args, **dict(kw))
                    m.discard(args, kw)
                else:
                    trace.append((("call", "failing-call")[kind], k))
                    ra, rs, rm = do_call(D, ca, cs, m, mode, KEYS[k], kind == 1, use_std and not used_discard)
                    if not same_res(ra, rm):
                        ok = fail("lru_cache:result-differs-from-model", (trace, ra, rm)) and ok
                    if not used_discard and not same_res(ra, rs):
                        ok = fail("lru_cache:result-differs-from-functools", (trace, ra, rs)) and ok
            ia = info_a(ca)
            if ia != m.info():
                ok = fail("lru_cache:cache_info-differs-from-model", (trace, ia, m.info())) and ok
                break
            if use_std and not used_discard:
                if ia != info_s(cs):
                    ok = fail("lru_cache:cache_info-differs-from-functools", (trace, ia, info_s(cs))) and ok
                    break
                with _no_tracing():
                    pa, ps = ca.cache_parameters(), cs.cache_parameters()
                    if pa["maxsize"] != ps["maxsize"] or pa["typed"] != ps["typed"]:
                        ok = fail("lru_cache:cache_parameters-differ", (pa, ps)) and ok
        # probe the recency order (not otherwise observable within k steps): insert fresh keys
        # until the oldest entry has been evicted, then call every key once - all concrete,
        # identical on all sides, adds no paths
        if ok and not symbolic and m.maxsize is not None and 0 < m.maxsize <= 8:
            fresh = [((100 + i,), ()) for i in range(m.maxsize - len(m.d) + 1)]
            for pat in fresh + KEYS[:NKEY]:
                ra, rs, rm = do_call(D, ca, cs, m, mode, pat, False, use_std and not used_discard)
                if not same_res(ra, rm) or (not used_discard and not same_res(ra, rs)):
                    ok = fail("lru_cache:recency-order-differs(probe)", (trace, pat, ra, rs, rm)) and ok
                    break
            if ok and info_a(ca) != m.info():
                ok = fail("lru_cache:cache_info-differs-after-probe", (trace, info_a(ca), m.info())) and ok
        if log_a != m.log:
            ok = fail("lru_cache:invocations-differ-from-model", (trace, log_a, m.log)) and ok
        if use_std and not used_discard and log_a != log_s:
            ok = fail("lru_cache:invocations-differ-from-functools", (trace, log_a, log_s)) and ok
    except Suspended:
        return finish(fail("lru_cache:suspended-with-nonsuspending-arguments"), False)
    shape = ("dyn", tuple(trace)) if not symbolic else ("dyn-symbolic-maxsize", tuple(trace), m.info()[3])
    return finish(ok, len(trace) >= 2, shape)


# ---- (C) methods ----------------------------------------------------------------------------
def make_classes(maxsize, typed):
    la, ls = [], []

    class CA:
        def __init__(self, n):
            self.n = n

        def __hash__(self):
            return 1

        def __eq__(self, o):
            return self is o

        def __len__(self):
            return 0  # instances are falsy (an empty container): binding must not depend on truthiness

        @A.lru_cache(maxsize=maxsize, typed=typed)
        async def meth(self, x):
            la.append(("meth", self.n, x))
            return ("m", self.n, x, len(la))

        @classmethod
        @A.lru_cache(maxsize=maxsize, typed=typed)
        async def cmeth(cls, x):
            la.append(("cmeth", x))
            return ("c", x, len(la))

        @staticmethod
        @A.lru_cache(maxsize=maxsize, typed=typed)
        async def smeth(x):
            la.append(("smeth", x))
            return ("s", x, len(la))

    with _no_tracing():

        class CS:
            def __init__(self, n):
                self.n = n

            def __hash__(self):
                return 1

            def __eq__(self, o):
                return self is o

            def __len__(self):
                return 0

            @functools.lru_cache(maxsize=maxsize, typed=typed)
            def meth(self, x):
                ls.append(("meth", self.n, x))
                return ("m", self.n, x, len(ls))

            @classmethod
            @functools.lru_cache(maxsize=maxsize, typed=typed)
            def cmeth(cls, x):
                ls.append(("cmeth", x))
                return ("c", x, len(ls))

            @staticmethod
            @functools.lru_cache(maxsize=maxsize, typed=typed)
            def smeth(x):
                ls.append(("smeth", x))
                return ("s", x, len(ls))

    return CA, CS, la, ls


def h_meth(which: int, o0: int, o1: int, o2: int, o3: int):
    """
    pre: 0 <= which <= 2 and 0 <= o0 < 10 and 0 <= o1 < 10 and 0 <= o2 < 10 and 0 <= o3 < 10
    pre: P("which") is None or which == P("which")
    pre: (P("L", 3) > 2 or o2 == 0) and (P("L", 3) > 3 or o3 == 0)
    post: _[0]
    post: not _[1]
    """
    reset_run()
    W = World("a")
    D = Driver(W, sync_only=True)
    maxsize = MAXSIZES[P("ms", "two")]
    CA, CS, la, ls = make_classes(maxsize, False)
    a0, a1 = CA(0), CA(1)
    with _no_tracing():
        s0, s1 = CS(0), CS(1)
    name = ("meth", "cmeth", "smeth")[0]
    for i in range(3):
        if which == i:
            name = ("meth", "cmeth", "smeth")[i]
    ok = True
    trace = []
    discarded = False
    L = P("L", 3)
    try:
        for o in (o0, o1, o2, o3)[:L]:
            op = 0
            for v in range(10):
                if o == v:
                    op = v
            trace.append(op)
            if op < 6:  # call on instance (op % 2) with key (op // 2)
                inst, key = op % 2, (1, 2, 1.0)[op // 2]
                ra = D.call(getattr((a0, a1)[inst], name)(key))
                if not discarded:
                    with _no_tracing():
                        rs = call_sync(getattr((s0, s1)[inst], name), key)
                    if ra != rs:
                        ok = fail("lru_cache:method-result-differs", (name, trace, ra, rs)) and ok
            elif op == 6:
                getattr(a0, name).cache_clear()
                with _no_tracing():
                    getattr(s0, name).cache_clear()
                discarded = False
                del la[:], ls[:]
            elif op == 7:
                # statistics are shared: looked up through the other instance / the class
                pass
            elif op == 8:
                getattr(a1, name).cache_discard(1)
                # reference: the entry of exactly that call pattern is gone -> next equal call is a miss
                before = info_a(getattr(a1, name))
                n_before = len(la)
                r = D.call(getattr(a1, name)(1))
                after = info_a(getattr(a1, name))
                if len(la) != n_before + 1 or after[1] != before[1] + 1:
                    ok = fail("lru_cache:method-discard-did-not-remove-entry", (name, trace)) and ok
                discarded = True
            else:
                # keyword pattern through the bound attribute: discard removes exactly that pattern
                r1 = D.call(getattr(a0, name)(x=1))
                n1 = len(la)
                getattr(a0, name).cache_discard(x=1)
                r2 = D.call(getattr(a0, name)(x=1))
                if maxsize != 0 and len(la) != n1 + 1:
                    ok = fail("lru_cache:method-keyword-discard-did-not-remove-entry", (name, trace)) and ok
                n2 = len(la)
                getattr(a0, name).cache_discard(1)  # a different pattern: must not remove x=1
                r3 = D.call(getattr(a0, name)(x=1))
                if maxsize != 0 and len(la) != n2:
                    ok = fail("lru_cache:method-discard-removed-another-pattern", (name, trace)) and ok
                discarded = True
            if not discarded:
                ia = info_a(getattr(a1, name))
                ib = info_a(getattr(CA, name)) if name != "meth" else info_a(CA.meth)
                with _no_tracing():
                    i_s = getattr(s1, name).cache_info()
                    i_s = (i_s.hits, i_s.misses, i_s.maxsize, i_s.currsize)
                if ia != i_s or ib != i_s:
                    ok = fail("lru_cache:method-cache_info-differs", (name, trace, ia, ib, i_s)) and ok
                    break
                if la != ls:
                    ok = fail("lru_cache:method-invocations-differ", (name, trace, la, ls)) and ok
                    break
    except Suspended:
        return finish(fail("lru_cache:suspended-with-nonsuspending-arguments"), False)
    return finish(ok, len(trace) >= 2, ("meth", name, tuple(trace)))


# ---- (D) decorator forms ----------------------------------------------------------------------
def h_forms(sel: int):
    """
    pre: 0 <= sel <= 9
    post: _[0]
    post: not _[1]
    """
    reset_run()

    async def fa(x=0):
        return x

    def fs(x=0):
        return x

    forms = [
        (lambda: A.lru_cache(fa), lambda: functools.lru_cache(fs)),
        (lambda: A.lru_cache()(fa), lambda: functools.lru_cache()(fs)),
        (lambda: A.lru_cache(32)(fa), lambda: functools.lru_cache(32)(fs)),
        (lambda: A.lru_cache(maxsize=None)(fa), lambda: functools.lru_cache(maxsize=None)(fs)),
        (lambda: A.lru_cache(maxsize=-5)(fa), lambda: functools.lru_cache(maxsize=-5)(fs)),
        (lambda: A.lru_cache(0, True)(fa), lambda: functools.lru_cache(0, True)(fs)),
        (lambda: A.lru_cache("x")(fa), lambda: functools.lru_cache("x")(fs)),
        (lambda: A.lru_cache(2.5)(fa), lambda: functools.lru_cache(2.5)(fs)),
        (lambda: A.cache(fa), lambda: functools.cache(fs)),
        (lambda: A.lru_cache(fa, True), lambda: functools.lru_cache(fs, True)),
    ]
    f_a, f_s = forms[0]
    for i in range(len(forms)):
        if sel == i:
            f_a, f_s = forms[i]
    W = World("a")
    D = Driver(W, sync_only=True)
    ra = call_sync(f_a)
    with _no_tracing():
        rs = call_sync(f_s)
    ok = True
    if ra[0] != rs[0]:
        ok = fail("lru_cache:decorator-form-outcome-differs", (sel, ra, rs)) and ok
    elif ra[0] == "exc":
        if type(ra[1]) is not type(rs[1]):
            ok = fail("lru_cache:decorator-form-exception-differs", (sel, ra, rs)) and ok
    else:
        with _no_tracing():
            pa, ps = ra[1].cache_parameters(), rs[1].cache_parameters()
            same = pa["maxsize"] == ps["maxsize"] and pa["typed"] == ps["typed"]
            wrapped = ra[1].__wrapped__ is fa and ra[1].__name__ == "fa"
        if not same:
            ok = fail("lru_cache:decorator-form-parameters-differ", (sel, pa, ps)) and ok
        if not wrapped:
            ok = fail("lru_cache:wrapper-metadata-wrong", sel) and ok
        r1 = D.call(ra[1](3))
        if r1 != ("ok", 3):
            ok = fail("lru_cache:decorated-call-wrong", r1) and ok
    return finish(ok, True, ("forms", sel))


GRID = {
    "h_keys": lambda: [(p, q, t) for p in range(NP) for q in range(NP) for t in (False, True)],
    "h_dyn": lambda: [(n, a, b, c, o0, o1, 0, (0 if not P("symbolic_ms", False) else ms), t) for n in range(4) for (a, b, c) in ((0, 1, 2), (2, 0, 3), (3, 2, 1)) for o0 in range(NOP) for o1 in range(0, NOP, 3) for ms in (-1, 0, 1, 2, 3, 9) for t in (False,) if (P("o0") in (None, o0)) and (P("o0r") is None or P("o0r")[0] <= o0 <= P("o0r")[1]) and (ms == -1 or P("symbolic_ms", False)) and a < NKEY and b < NKEY and c < NKEY],
    "h_meth": lambda: [(w, a, b, c, 0) for w in range(3) for a in range(10) for b in range(10) for c in (0, 3, 6, 8)],
    "h_forms": lambda: [(i,) for i in range(10)],
}


def jobs(tier):
    q = tier == "quick"
    T = 400 if q else 900
    J = []

    def add(fn, **part):
        J.append({"module": "c10", "fn": fn, "part": part, "timeout": T, "preflight_budget": 30})

    add("h_keys", ms=None)
    add("h_keys", ms=2)
    for ms in ("none", "neg", "zero", "one", "two", "three", "default"):
        if q:
            for o0r in ((0, 3), (4, 7), (8, 10)):
                add("h_dyn", ms=ms, K=2, PRE=3, NKEY=3, typed=False, o0r=o0r)
        else:
            for o0 in range(11):
                add("h_dyn", ms=ms, K=3, PRE=3, NKEY=3, o0=o0, typed=False)
            for o0 in range(14):
                add("h_dyn", ms=ms, K=2, PRE=3, NKEY=4, o0=o0, typed=False)
    if q:
        for o0 in range(11):
            add("h_dyn", symbolic_ms=True, K=2, PRE=3, NKEY=3, o0=o0, typed=False)
    else:
        for o0 in range(11):
            add("h_dyn", symbolic_ms=True, K=3, PRE=3, NKEY=3, o0=o0, typed=False)
        for o0 in range(14):
            add("h_dyn", symbolic_ms=True, K=2, PRE=3, NKEY=4, o0=o0, typed=False)
    for ms in ("none", "two"):
        for o0r in ((0, 5), (6, 10)):
            add("h_dyn", ms=ms, K=2, PRE=2, NKEY=3, typed=True, o0r=o0r)
    for ms in ("none", "zero", "one", "two"):
        for w in (0, 1, 2):
            add("h_meth", ms=ms, L=(2 if q else 3), which=w)
    add("h_forms")
    return J


LEVEL = "other"
BOUNDS = {
    "quick": "(A) all ordered pairs of 24 call patterns (ints/floats/bools/strs/tuples/None, positional vs keyword, keyword order) x typed, maxsize None and 2, sequence p,q,p; (B) from every state reachable by calling 0..3 distinct keys (of 3; thorough: of 4) in any order: every sequence of 2 operations over {call k, failing call k, cache_discard k, cache_clear, cache_info} for maxsize in {None,-3,0,1,2,3,default} against the real C functools.lru_cache and a reference model, plus the same with maxsize a symbolic unbounded int (>= -2) against the model; (C) methods/classmethods/staticmethods: sequences of 2 operations over two (falsy) instances x 3 keys, clear, discard; (D) 10 decorator forms",
    "thorough": "(B) 3 operations over 3 keys and 2 operations over 4 keys (3 operations over 4 keys did not exhaust within 900 s per first operation), (C) 3 operations",
}
OUTSIDE = ["histories longer than prefix+3 (k-step simulation from every canonical state replaces length-40 histories; assumes the observable state - ordered contents and counters - determines future behaviour)", "more than 4 distinct keys in the dynamics part, maxsize 4..5 concretely (covered by the symbolic-maxsize harness against the model only)", "unhashable arguments"]
NONTRIVIAL_RULE = ">=2 operations executed on the path"
ASSUMPTIONS = ["functools.lru_cache (C implementation) is called under crosshair.tracers.NoTracing because CrossHair otherwise disables its caching; its inputs are concrete pool values on every path", "the reference model (OrderedDict + functools._make_key) is compared with functools.lru_cache in the same run on every history without cache_discard"]

MANIFEST = {
    "text": 'Key equivalence for all ordered pairs of 24 call patterns x typed; k-step simulation from every canonical cache state with a recency probe, against the real C functools.lru_cache and a reference model, incl. maxsize as an unbounded symbolic int; methods/classmethods/staticmethods; decorator forms. Nothing is claimed outside the bounds listed in the evidence file.',
    "note": 'Trusted: CrossHair 0.0.110 (with short-circuiting off and a refined callable() model), z3 5.1.0, the harness oracles. Assumes observable state (ordered contents + counters) determines future behaviour; functools oracle runs under NoTracing.',
}
