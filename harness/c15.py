"""C15 — context managers as decorators wrap every call in a fresh, paired context."""
import asyncstdlib as A

from .world import P, World, Suspend, Cancel, Task, Choices, schedule, Driver, Fault, fail, finish, reset_run

PROPERTY = "C15"
LEVEL = "model_checking"


def _pre(o0, o1, o2, k, reps):
    ok = 0 <= k <= P("K", 0) and 1 <= reps <= P("REPS", 1)
    for i, o in enumerate((o0, o1, o2)):
        if i < P("T", 2):
            ok = ok and 0 <= o <= P("OUT", 2)  # body outcome: return / raise Fault / raise exactly Exception
        else:
            ok = ok and o == 0
    return ok


def _body(cs, o0, o1, o2, k, reps):
    reset_run()
    NT = P("T", 2)
    kind = P("kind", "generator")  # generator / decorator-class / suppressing
    esusp, bsusp, xsusp = P("ES", 1), P("BS", 1), P("XS", 1)
    W = World("a")
    log = []
    gens = []
    ctr = [0]

    if kind in ("generator", "suppressing"):

        @A.contextmanager
        async def cm(tag="default-tag", *, func="default-mode", self="default-self"):
            # parameter names chosen to collide with the manager's own internals if arguments are forwarded carelessly
            if tag != "x" or func != "kw" or self != "kw2":
                W.bad("decorator:manager-recreated-without-its-arguments")
            ctr[0] += 1
            me = ctr[0]
            gens.append(me)
            for _ in range(esusp):
                await Suspend(W)
            log.append(("enter", me))
            try:
                yield me
            except BaseException as e:
                log.append(("exit", me, e))
                for _ in range(xsusp):
                    await Suspend(W)
                if kind == "suppressing" and isinstance(e, Exception):
                    return
                raise
            else:
                log.append(("exit", me, None))
                for _ in range(xsusp):
                    await Suspend(W)

        try:
            deco = cm("x", func="kw", self="kw2")
        except TypeError as e:
            return finish(fail("decorator:manager-cannot-be-created-with-these-arguments", str(e)), True, ("deco", kind, "creation failed"))
    else:

        class Deco(A.ContextDecorator):
            async def __aenter__(self):
                ctr[0] += 1
                me = ctr[0]
                for _ in range(esusp):
                    await Suspend(W)
                log.append(("enter", me))
                stack.append(me)
                return me

            async def __aexit__(self, et, ev, tb):
                # reentrant CM: exits pair with enters in LIFO order per instance only if
                # calls do not overlap; record just the exception
                log.append(("exit", None, ev))
                for _ in range(xsusp):
                    await Suspend(W)
                return False

        stack = []
        deco = Deco()

    outcomes = [o0, o1, o2]
    faults = [Fault("body-%d" % t) for t in range(3)]
    plain = [Exception("plain-%d" % t) for t in range(3)]

    class EndOfStream(StopAsyncIteration):
        pass

    stops = [EndOfStream("stop-%d" % t) for t in range(3)]

    class EmptyErr(Exception):
        """falsy exception object whose class cannot be instantiated without arguments"""

        def __init__(self, what):
            Exception.__init__(self, what)

        def __len__(self):
            return 0

    empties = [EmptyErr("empty-%d" % t) for t in range(3)]
    active = {}

    async def func(t, rep):
        # the context is entered before the body runs
        n_enter = sum(1 for e in log if e[0] == "enter")
        n_exit = sum(1 for e in log if e[0] == "exit")
        log.append(("body", t, rep, n_enter - n_exit))
        for _ in range(bsusp):
            await Suspend(W)
        log.append(("body-end", t, rep))
        if outcomes[t] == 1:
            raise faults[t]
        if outcomes[t] == 2:
            raise plain[t]
        if outcomes[t] == 3:
            raise stops[t]
        if outcomes[t] == 4:
            raise empties[t]
        return ("result", t, rep)

    if P("method", False):
        # the decorated coroutine function is a method called through an instance
        holder_box = []

        async def meth_impl(self, t, rep):
            if not holder_box or self is not holder_box[0]:
                W.bad("decorator:method-called-without-its-instance")
            return await func(t, rep)

        Holder = type("Holder", (), {"meth": deco(meth_impl)})
        holder_box.append(Holder())
        dfunc = holder_box[0].meth
    else:
        dfunc = deco(func)

    results = {}

    async def caller(t):
        out = []
        if P("direct", False) and t == 0:
            # the decorating manager object is itself entered once; later calls still get fresh contexts
            async with deco:
                ne = sum(1 for e in log if e[0] == "enter")
                nx = sum(1 for e in log if e[0] == "exit")
                log.append(("body", "direct", 0, ne - nx))
                log.append(("body-end", "direct", 0))
        for rep in range(reps):
            try:
                out.append(("ok", await dfunc(t, rep)))
            except Exception as e:
                out.append(("exc", e))
        results[t] = out

    cancel = Cancel("c")
    tasks = [Task("t%d" % t, caller(t), cancel_at=(k if (t == 0 and P("K", 0)) else 0), cancel_exc=cancel) for t in range(NT)]
    choices = Choices(cs)
    schedule(W, tasks, choices)
    ok = True
    cancelled = False
    for tk in tasks:
        if tk.state == "failed":
            if tk.value is cancel:
                cancelled = True
            else:
                ok = fail("decorator:caller-failed-%s" % type(tk.value).__name__, (choices.trace, tk.value)) and ok
    # per call: result / exception delivered
    for t in range(NT):
        if t in results:
            for rep, r in enumerate(results[t]):
                if outcomes[t] >= 1:
                    want = faults[t] if outcomes[t] == 1 else (plain[t] if outcomes[t] == 2 else (stops[t] if outcomes[t] == 3 else empties[t]))
                    if kind == "suppressing":
                        if r != ("ok", None):
                            ok = fail("decorator:suppressed-exception-not-suppressed", (t, r)) and ok
                    elif not (r[0] == "exc" and r[1] is want):
                        ok = fail("decorator:body-exception-not-propagated", (t, r)) and ok
                elif r != ("ok", ("result", t, rep)):
                    ok = fail("decorator:result-not-returned", (t, r)) and ok
    # every body ran inside an entered, not yet exited context
    for e in log:
        if e[0] == "body" and e[3] < 1:
            ok = fail("decorator:body-ran-outside-context", (choices.trace, log)) and ok
    n_body = sum(1 for e in log if e[0] == "body")
    n_enter = sum(1 for e in log if e[0] == "enter")
    n_exit = sum(1 for e in log if e[0] == "exit")
    if n_exit != n_enter:
        ok = fail("decorator:entered-context-not-exited", (choices.trace, n_enter, n_exit, cancelled)) and ok
    if cancelled and kind != "decorator-class":
        got_cancel = [e for e in log if e[0] == "exit" and e[2] is cancel]
        in_body_or_exit = any(e[0] == "body" and e[1] == 0 for e in log)
        if in_body_or_exit and not got_cancel and not any(e[0] == "exit" and e[1] is not None for e in log if False):
            # cancelled after entering: the exit must have seen the cancellation unless the body had ended
            body_ended = sum(1 for e in log if e[0] == "body-end" and e[1] == 0)
            bodies = sum(1 for e in log if e[0] == "body" and e[1] == 0)
            if bodies > body_ended:
                ok = fail("decorator:exit-did-not-receive-cancellation", (choices.trace,)) and ok
    if not cancelled:
        if n_enter != n_body or n_exit != n_body or n_body != NT * reps + (1 if P("direct", False) else 0):
            ok = fail("decorator:enter-body-exit-counts-differ", (n_enter, n_body, n_exit)) and ok
    if kind in ("generator", "suppressing"):
        # each call got its own generator; its exit received that call's body exception
        if len(set(gens)) != len(gens) or len(gens) != n_enter + (1 if False else 0) and not cancelled:
            ok = fail("decorator:generator-shared-between-calls", gens) and ok
        exits = {e[1]: e[2] for e in log if e[0] == "exit"}
        enters = [e[1] for e in log if e[0] == "enter"]
        if not cancelled:
            got_faults = [v for v in exits.values() if v is not None]
            want = [(faults[t] if outcomes[t] == 1 else (plain[t] if outcomes[t] == 2 else (stops[t] if outcomes[t] == 3 else empties[t]))) for t in range(NT) if outcomes[t] >= 1 for _ in range(reps)]
            if len(got_faults) != len(want) or any(not any(g is w for w in want) for g in got_faults):
                ok = fail("decorator:exit-did-not-receive-body-exception", (got_faults, want)) and ok
            if sorted(exits) != sorted(enters):
                ok = fail("decorator:enter-exit-not-paired", (enters, sorted(exits))) and ok
    for v in W.viol:
        ok = fail("decorator:%s" % v, choices.trace) and ok
    switches = 0
    for p, q in zip(choices.trace, choices.trace[1:]):
        if p != q:
            switches += 1
    return finish(ok, switches >= 1 or NT == 1, ("deco", kind, NT, tuple(outcomes[:NT]), tuple(choices.trace), cancelled))


from .sched import define, NCH  # noqa: E402

h_deco = define("h_deco", "o0: int, o1: int, o2: int, k: int, reps: int", "o0, o1, o2, k, reps", "_pre", "_body", globals())


def _grid():
    import random

    rnd = random.Random(61)
    T = P("T", 2)
    return [tuple([rnd.randint(0, 3) for _ in range(NCH)] + [rnd.randint(0, P("OUT", 2)) if i < T else 0 for i in range(3)] + [rnd.randint(0, P("K", 0)), rnd.randint(1, P("REPS", 1))]) for _ in range(200)]


GRID = {"h_deco": _grid}


def jobs(tier):
    q = tier == "quick"
    T = 400 if q else 900
    J = []

    def add(**part):
        J.append({"module": "c15", "fn": "h_deco", "part": part, "timeout": T})

    for kind in ("generator", "decorator-class", "suppressing"):
        add(kind=kind, T=2, ES=1, BS=1, XS=1)
        add(kind=kind, T=1, ES=1, BS=1, XS=1, REPS=3, OUT=4)
        add(kind=kind, T=2, ES=0, BS=1, XS=0, OUT=1, method=True)
        add(kind=kind, T=1, ES=1, BS=1, XS=1, REPS=2, OUT=1, direct=True)
        add(kind=kind, T=2, ES=0, BS=1, XS=0, OUT=1, direct=True)
        add(kind=kind, T=2, ES=1, BS=1, XS=1, K=3, OUT=1)
        add(kind=kind, T=3, ES=0, BS=1, XS=0, OUT=(1 if q else 2))
        if not q:
            add(kind=kind, T=2, ES=1, BS=2, XS=1)
            for c0 in range(3):  # three calls suspending in enter and body: partitioned by the first scheduling choice
                add(kind=kind, T=3, ES=1, BS=1, XS=0, OUT=0, c0=c0)
    return J


BOUNDS = {
    "quick": "all interleavings of 2..3 concurrent calls of one decorated coroutine function with suspensions in enter, body and exit; body outcome return / raise an Exception subclass / raise exactly Exception / raise a StopAsyncIteration subclass / raise a falsy exception object per call (symbolic); the decorated function also as a method called through its instance; the decorating manager object also entered directly once before the calls (direct jobs); generator parameters named func and self passed by keyword; manager created with positional and keyword arguments; manager built by contextmanager, a ContextDecorator subclass, or suppressing; 1..3 repeated sequential calls (symbolic count); first caller cancelled at its k-th suspension (k<=3)",
    "thorough": "3 calls suspending in enter and body (all returning; with a suspending exit as well the 34650 schedules did not exhaust), 3 calls with every outcome, 2 calls with 2 suspensions in the body and every outcome",
}
OUTSIDE = ["more than 3 concurrent calls", "ContextDecorator subclasses that override _recreate_cm"]
NONTRIVIAL_RULE = ">=1 context switch in the schedule (or a single sequential caller)"

MANIFEST = {
    "text": "Bounded model checking of 2..3 concurrent calls of one decorated coroutine function (suspensions in enter, body, exit; body returns / raises / is cancelled; generator-based, ContextDecorator subclass, suppressing): enter before body, exit after body with the body's exception, own generator per call, every entered context exited. Nothing is claimed outside the bounds listed in the evidence file.",
    "note": 'Trusted: CrossHair 0.0.110 (with short-circuiting off and a refined callable() model), z3 5.1.0, the harness oracles. Scheduler as in C09.',
}
