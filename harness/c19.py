"""C19 — asynctools adapters normalise every async shape to the same plain result."""
import functools

import asyncstdlib as A

from .world import P, World, Driver, Item, Suspend, Fault, fail, finish, Suspended, reset_run, same_seq, call_sync

PROPERTY = "C19"


async def _aval(W, v, log=None, tag=None):
    if log is not None:
        log.append(("awaited", tag))
    for _ in range(W.susp):
        await Suspend(W)
    return v


# ---- any_iter: {plain, awaitable} x {list, iterator, async iterator} x {plain items, awaitable items}
class FutureLike:
    """An awaitable that also defines __iter__ (the classic future shape)."""

    def __init__(self, coro):
        self.coro = coro

    def __await__(self):
        return self.coro.__await__()

    __iter__ = __await__


def h_any_iter(n: int, outer_aw: int, kind: int, items_aw: bool, steps: int, s: int):
    """
    pre: 0 <= n <= P("N", 4) and 0 <= kind <= 4 and 0 <= steps <= P("N", 4) + 1 and 0 <= s <= 1 and 0 <= outer_aw <= 2
    post: _[0]
    post: not _[1]
    """
    reset_run()
    W = World("a", susp=s)
    D = Driver(W, sync_only=(s == 0))
    items = []
    for i in range(n):
        items.append(Item(0, "0.%d" % i))
    log = []
    if items_aw:
        elems = [_aval(W, it, log, i) for i, it in enumerate(items)]
    else:
        elems = list(items)
    kd = 0
    for v in range(5):
        if kind == v:
            kd = v
    if kd == 0:
        inner = list(elems)
    elif kd == 1:
        inner = iter(list(elems))
    elif kd == 2:
        inner = W.source(elems, "agen")
    elif kd == 3:
        inner = W.source(elems, "acls")
    else:
        inner = W.source(elems, "bare")
    if outer_aw == 1:
        arg = _aval(W, inner)
    elif outer_aw == 2:
        arg = FutureLike(_aval(W, inner))
    else:
        arg = inner
    ok = True
    try:
        ait = A.any_iter(arg)
        got, end = D.take(ait, steps)
        exp = items[:steps]
        if not same_seq(got, exp):
            ok = fail("any_iter:items-differ", (got, exp)) and ok
        if steps > len(items):
            if end != "stop":
                ok = fail("any_iter:did-not-stop", end) and ok
        elif end is not None:
            ok = fail("any_iter:ended-early", end) and ok
        # per-item awaitables are awaited one at a time, only when asked for
        if items_aw:
            awaited = [e[1] for e in log]
            if awaited != list(range(len(got))):
                ok = fail("any_iter:item-awaitables-not-awaited-lazily-in-order", (awaited, len(got))) and ok
        D.aclose(ait)
    except Suspended:
        ok = fail("any_iter:suspended-with-nonsuspending-arguments") and ok
    # close the coroutine objects never awaited (avoid warnings)
    for e in elems:
        if hasattr(e, "close"):
            e.close()
    for v in W.viol:
        ok = fail("any_iter:%s" % v) and ok
    return finish(ok, len(items) >= 2 and len(got) >= 1, ("any_iter", outer_aw, kd, bool(items_aw), len(items), len(got)))


# ---- await_each: laziness and order ------------------------------------------------------------
def h_await_each(n: int, steps: int, failing: int, s: int, as_iter: bool):
    """
    pre: 0 <= n <= P("N", 4) and 0 <= steps <= P("N", 4) + 1 and -1 <= failing < n and 0 <= s <= 1
    post: _[0]
    post: not _[1]
    """
    reset_run()
    W = World("a", susp=s)
    D = Driver(W, sync_only=(s == 0))
    items = []
    for i in range(n):
        items.append(Item(0, "0.%d" % i))
    log = []
    boom = Fault("awaitable failed")

    async def bad(i):
        log.append(("awaited", i))
        raise boom

    aws = []
    for i, it in enumerate(items):
        aws.append(bad(i) if i == failing else _aval(W, it, log, i))
    made = []

    def lazily():
        for i, a in enumerate(aws):
            made.append(i)
            yield a

    ok = True
    try:
        ait = A.await_each(lazily() if as_iter else list(aws))
        got, end = D.take(ait, steps)
        upto = len(items) if failing < 0 else failing
        exp = items[: min(steps, upto)]
        if not same_seq(got, exp):
            ok = fail("await_each:items-differ", (got, exp)) and ok
        awaited = [e[1] for e in log]
        want_awaited = min(steps, len(items) if failing < 0 else failing + 1)
        if awaited != list(range(want_awaited)):
            ok = fail("await_each:not-awaited-one-at-a-time-on-demand", (awaited, want_awaited)) and ok
        if as_iter and len(made) > want_awaited + (1 if steps > want_awaited else 0):
            ok = fail("await_each:iterable-read-ahead", (made, want_awaited)) and ok
        if failing >= 0 and steps > failing:
            if end is not boom:
                ok = fail("await_each:failure-not-propagated", end) and ok
        elif steps > len(items):
            if end != "stop":
                ok = fail("await_each:did-not-stop", end) and ok
        elif end is not None:
            ok = fail("await_each:ended-early", end) and ok
        before = len(log)
        D.aclose(ait)
        if len(log) != before or (as_iter and len(made) > want_awaited + (1 if steps > want_awaited else 0)):
            ok = fail("await_each:awaitables-nobody-asked-for-awaited-when-closed", (before, len(log))) and ok
    except Suspended:
        ok = fail("await_each:suspended-with-nonsuspending-arguments") and ok
    for a in aws:
        a.close()
    for v in W.viol:
        ok = fail("await_each:%s" % v) and ok
    return finish(ok, len(items) >= 2 and len(got) >= 1, ("await_each", len(items), len(got), failing, bool(as_iter)))


# ---- apply: positional / keyword split ------------------------------------------------------------
def h_apply(n: int, npos: int, failing: int, s: int, fraises: bool, fret: int):
    """
    pre: 0 <= n <= 4 and 0 <= npos <= n and -1 <= failing < n and 0 <= s <= 1 and 0 <= fret <= 2
    post: _[0]
    post: not _[1]
    """
    reset_run()
    W = World("a", susp=s)
    D = Driver(W, sync_only=(s == 0))
    vals = [Item(0, "v%d" % i) for i in range(4)]
    names = ["a", "b", "c", "d"]
    log = []
    boom = Fault("arg failed")
    fboom = Fault("function failed")

    async def bad(i):
        log.append(("awaited", i))
        raise boom

    aws = []
    for i in range(n):
        aws.append(bad(i) if i == failing else _aval(W, vals[i], log, i))
    pos = aws[:npos]
    kws = {}
    for i in range(npos, n):
        kws[names[i]] = aws[i]
    seen = {}

    class ResultAw:
        """What the function returns may itself be awaitable: apply returns it as it is."""

        def __await__(self):
            return iter(())

    async def _never():
        return "must not be awaited by apply"

    special = None
    if fret == 1:
        special = ResultAw()
    elif fret == 2:
        special = _never()

    def f(*a, **k):
        seen["a"], seen["k"] = a, k
        if fraises:
            raise fboom
        if special is not None:
            return special
        return ("called", a, tuple(sorted(k)))

    ok = True
    try:
        r = D.call(A.apply(f, *pos, **kws))
    except Suspended:
        return finish(fail("apply:suspended-with-nonsuspending-arguments"), False)
    if failing >= 0:
        if not (r[0] == "exc" and r[1] is boom) or seen:
            ok = fail("apply:argument-failure-not-propagated", r) and ok
    else:
        awaited = [e[1] for e in log]
        if awaited != list(range(n)):
            ok = fail("apply:arguments-not-awaited-in-order", awaited) and ok
        if not seen or not same_seq(list(seen["a"]), vals[:npos]) or sorted(seen["k"]) != sorted(names[npos:n]) or any(seen["k"][names[i]] is not vals[i] for i in range(npos, n)):
            ok = fail("apply:function-got-wrong-arguments", seen) and ok
        if fraises:
            if not (r[0] == "exc" and r[1] is fboom):
                ok = fail("apply:function-exception-not-propagated", r) and ok
        elif special is not None:
            if r[0] != "ok" or r[1] is not special:
                ok = fail("apply:function-result-not-returned-as-is", r) and ok
        elif r[0] != "ok" or type(r[1]) is not tuple or r[1][0] != "called":
            ok = fail("apply:result-not-returned", r) and ok
    for a in aws:
        a.close()
    if special is not None and hasattr(special, "close"):
        special.close()
    for v in W.viol:
        ok = fail("apply:%s" % v) and ok
    return finish(ok, n >= 2, ("apply", n, npos, failing, bool(fraises), fret))


# ---- sync ------------------------------------------------------------------------------------------------
def h_sync(flavour: int, outcome: int, s: int):
    """
    pre: 0 <= flavour <= 7 and 0 <= outcome <= 1 and 0 <= s <= 1
    post: _[0]
    post: not _[1]
    """
    reset_run()
    W = World("a", susp=s)
    D = Driver(W, sync_only=(s == 0))
    val = Item(0, "val")
    boom = Fault("callable failed")

    def plain(x, y=0):
        if outcome:
            raise boom
        return (x, y, val)

    async def coro(x, y=0):
        for _ in range(W.susp):
            await Suspend(W)
        if outcome:
            raise boom
        return (x, y, val)

    class Obj:
        def __call__(self, x, y=0):
            return coro(x, y)

    class SyncObj:
        def __call__(self, x, y=0):
            return plain(x, y)

    class Aw:
        """An awaitable that is not a coroutine."""

        def __init__(self, x, y):
            self.x, self.y = x, y

        def __await__(self):
            return coro(self.x, self.y).__await__()

    fl = 0
    for v in range(8):
        if flavour == v:
            fl = v
    fn = [plain, coro, functools.partial(coro, 1), Obj(), lambda x, y=0: coro(x, y), SyncObj(), lambda x, y=0: Aw(x, y), functools.partial(plain, 1)][fl]
    ok = True
    w0 = call_sync(lambda: A.sync(fn))
    if w0[0] == "exc":
        return finish(fail("sync:callable-rejected", w0[1]), True, ("sync", fl, outcome))
    wrapped = w0[1]
    if fl == 1 and wrapped is not coro:
        ok = fail("sync:coroutine-function-not-returned-unchanged") and ok
    if fl == 2 and wrapped is not fn and False:
        pass
    try:
        made = call_sync(lambda: wrapped(y=2) if fl in (2, 7) else wrapped(1, y=2))
        if made[0] == "exc":
            return finish(fail("sync:wrapped-callable-cannot-be-called-like-the-original", made[1]), True, ("sync", fl, outcome))
        aw = made[1]
        if not hasattr(aw, "__await__"):
            ok = fail("sync:result-not-awaitable") and ok
            return finish(ok, True, ("sync", fl, outcome))
        r = D.call(aw)
    except Suspended:
        return finish(fail("sync:suspended-with-nonsuspending-arguments"), False)
    if outcome:
        if not (r[0] == "exc" and r[1] is boom):
            ok = fail("sync:exception-not-propagated-unchanged", r) and ok
    elif not (r[0] == "ok" and type(r[1]) is tuple and len(r[1]) == 3 and r[1][0] == 1 and r[1][1] == 2 and r[1][2] is val):
        ok = fail("sync:result-differs", r) and ok
    # one wrapper, two calls whose results differ in kind: a plain value, then an awaitable (and the other way round)
    state = {"n": 0}

    def alternating(x):
        state["n"] += 1
        if (state["n"] % 2 == 1) == (fl % 2 == 0):
            return ("plain", x)
        return coro(x, 2)

    if not outcome:
        walt = A.sync(alternating)
        for rnd_ in range(2):
            state_before = state["n"]
            ra = D.call(walt(1))
            plain_turn = ((state_before + 1) % 2 == 1) == (fl % 2 == 0)
            want_ok = ("plain", 1) if plain_turn else (1, 2, val)
            if not (ra[0] == "ok" and type(ra[1]) is tuple and len(ra[1]) == len(want_ok) and all(a is b or a == b for a, b in zip(ra[1], want_ok))):
                ok = fail("sync:wrapper-remembers-the-kind-of-an-earlier-result", (fl, rnd_, ra)) and ok
    r2 = None
    try:
        A.sync(5)
    except TypeError:
        r2 = "TypeError"
    if r2 != "TypeError":
        ok = fail("sync:non-callable-accepted") and ok
    for v in W.viol:
        ok = fail("sync:%s" % v) and ok
    return finish(ok, True, ("sync", fl, outcome, s))


GRID = {
    "h_any_iter": lambda: [(n, o, k, i, st, s) for n in range(4) for o in (0, 1, 2) for k in range(5) for i in (False, True) for st in (0, 1, 2, 4) for s in (0, 1)],
    "h_await_each": lambda: [(n, st, f, s, a) for n in range(4) for st in (0, 1, 2, 4) for f in range(-1, n) for s in (0, 1) for a in (False, True)],
    "h_apply": lambda: [(n, p, f, s, fr, ft) for n in range(5) for p in range(n + 1) for f in range(-1, n) for s in (0, 1) for fr in (False, True) for ft in (0, 1, 2)],
    "h_sync": lambda: [(f, o, s) for f in range(8) for o in (0, 1) for s in (0, 1)],
}


def jobs(tier):
    q = tier == "quick"
    T = 400 if q else 900
    N = 4 if q else 6
    return [
        {"module": "c19", "fn": "h_any_iter", "part": {"N": N}, "timeout": T},
        {"module": "c19", "fn": "h_await_each", "part": {"N": N}, "timeout": T},
        {"module": "c19", "fn": "h_apply", "part": {}, "timeout": T},
        {"module": "c19", "fn": "h_sync", "part": {}, "timeout": T},
    ]


LEVEL = "other"
BOUNDS = {
    "quick": "any_iter: all 30 combinations {plain, coroutine, future-like awaitable that is also iterable} x {list, sync iterator, async generator, class-based async iterator with / without aclose} x {plain items, awaitable items}, length 0..4, every number of consumer steps 0..5, awaitables suspending 0..1 times; await_each: length 0..4, steps, one failing awaitable at any position, list or lazy iterable; apply: 0..4 arguments, every positional/keyword split, one failing argument, failing function, function returning a plain value / a custom awaitable / a coroutine (returned as it is); sync: def / async def / partial(async def) / callable object returning a coroutine / lambda returning a coroutine / sync callable object / function returning a non-coroutine awaitable / partial(def), returning or raising; one wrapper called twice with results alternating between plain and awaitable; nothing awaited when an await_each stream is closed early",
    "thorough": "lengths 0..6",
}
OUTSIDE = ["lengths above the bound", "awaitable items that are themselves async iterables"]
NONTRIVIAL_RULE = ">=2 items and >=1 item consumed (apply: >=2 arguments)"

MANIFEST = {
    "text": 'Symbolic shape selectors, lengths, consumer steps, failing positions and argument splits for any_iter / await_each / apply / sync; items by identity, await order and laziness by log. Nothing is claimed outside the bounds listed in the evidence file.',
    "note": 'Trusted: CrossHair 0.0.110 (with short-circuiting off and a refined callable() model), z3 5.1.0, the harness oracles. -',
}
